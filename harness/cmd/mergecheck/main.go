// mergecheck: reflection-driven cross-check of the Merge translator (C19).
// It enumerates every field of every configuration type reachable from the
// exported Merge methods of /repo's working tree, compares names and kinds with
// the translator's table, builds receivers/arguments with each field set or
// unset on either side, runs the REAL Merge, and writes the cases with the
// observed results as a Coq file in which the translated merge functions are
// evaluated (vm_compute) and compared.
package main

import (
	"context"
	"encoding/json"
	"flag"
	"fmt"
	"math/rand"
	"os"
	"reflect"
	"sort"
	"strings"
	"time"

	"github.com/cep21/circuit/v4"
	"github.com/cep21/circuit/v4/closers/hystrix"
	"github.com/cep21/circuit/v4/closers/simplelogic"
	"github.com/cep21/circuit/v4/metrics/responsetimeslo"
	"github.com/cep21/circuit/v4/metrics/rolling"
)

type tabEntry struct {
	Type, Pkg, Field, Kind, GoType string
}

// the exported entry points; nested types are reached through them
var roots = []interface{}{
	&circuit.Config{}, &hystrix.ConfigureOpener{}, &hystrix.ConfigureCloser{}, &simplelogic.ConfigConsecutiveErrOpener{},
	&rolling.RunStatsConfig{}, &rolling.FallbackStatsConfig{}, &responsetimeslo.Config{},
}

var lastTok int
var violations []string

// expected computes, field by field, what the property says merging o into c must give.
func expected(c, o, into reflect.Value) {
	t := c.Type()
	for i := 0; i < t.NumField(); i++ {
		f := t.Field(i)
		if !f.IsExported() {
			continue
		}
		cv, ov, iv := c.Field(i), o.Field(i), into.Field(i)
		switch kindOf(f.Type) {
		case "num":
			if cv.Int() != 0 {
				iv.Set(cv)
			} else {
				iv.Set(ov)
			}
		case "bool":
			iv.SetBool(cv.Bool() || ov.Bool())
		case "tok":
			if !cv.IsNil() {
				iv.Set(cv)
			} else {
				iv.Set(ov)
			}
		case "list":
			iv.Set(reflect.AppendSlice(reflect.AppendSlice(reflect.MakeSlice(f.Type, 0, 4), cv), ov))
		case "map":
			if cv.Len()+ov.Len() > 0 {
				m := reflect.MakeMap(f.Type)
				for _, k := range ov.MapKeys() {
					m.SetMapIndex(k, ov.MapIndex(k))
				}
				for _, k := range cv.MapKeys() {
					m.SetMapIndex(k, cv.MapIndex(k))
				}
				iv.Set(m)
			}
		case "struct":
			expected(cv, ov, iv)
		}
	}
}

type tokRun struct{ id int }

func (t *tokRun) Success(context.Context, time.Time, time.Duration)       {}
func (t *tokRun) ErrFailure(context.Context, time.Time, time.Duration)    {}
func (t *tokRun) ErrTimeout(context.Context, time.Time, time.Duration)    {}
func (t *tokRun) ErrBadRequest(context.Context, time.Time, time.Duration) {}
func (t *tokRun) ErrInterrupt(context.Context, time.Time, time.Duration)  {}
func (t *tokRun) ErrConcurrencyLimitReject(context.Context, time.Time)    {}
func (t *tokRun) ErrShortCircuit(context.Context, time.Time)              {}
func (t *tokRun) Opened(context.Context, time.Time)                       {}
func (t *tokRun) Closed(context.Context, time.Time)                       {}

func pkgName(t reflect.Type) string {
	p := t.PkgPath()
	return p[strings.LastIndex(p, "/")+1:]
}
func coqName(t reflect.Type) string {
	pn := pkgName(t)
	if pn == "v4" {
		pn = "circuit"
	}
	return pn + "_" + t.Name()
}

func kindOf(t reflect.Type) string {
	switch t.Kind() {
	case reflect.Int, reflect.Int64, reflect.Int32, reflect.Uint, reflect.Uint64:
		return "num"
	case reflect.Bool:
		return "bool"
	case reflect.Func, reflect.Interface, reflect.Ptr:
		return "tok"
	case reflect.Slice:
		return "list"
	case reflect.Map:
		return "map"
	case reflect.Struct:
		return "struct"
	}
	return "unsupported:" + t.Kind().String()
}

type gen struct {
	r       *rand.Rand
	nextTok int
	force   map[string]int // "Type.Field" -> 1 set, 0 unset; others random
}

// fill sets every field of v (a struct value) to a set or unset value.
func (g *gen) fill(v reflect.Value, side int) {
	t := v.Type()
	for i := 0; i < t.NumField(); i++ {
		f := t.Field(i)
		if !f.IsExported() {
			continue
		}
		fv := v.Field(i)
		if f.Type.Kind() == reflect.Struct {
			g.fill(fv, side)
			continue
		}
		set := g.r.Intn(2) == 1
		if w, ok := g.force[t.Name()+"."+f.Name]; ok {
			set = w == 1
		}
		if !set {
			continue
		}
		switch kindOf(f.Type) {
		case "num":
			fv.SetInt(int64([]int{7, -3, 1000000007, 1}[g.r.Intn(4)] + side))
		case "bool":
			fv.SetBool(true)
		case "tok":
			g.nextTok++
			id := g.nextTok
			if f.Type.Kind() == reflect.Func {
				fv.Set(reflect.MakeFunc(f.Type, func(args []reflect.Value) []reflect.Value {
					lastTok = id
					outs := make([]reflect.Value, f.Type.NumOut())
					for k := range outs {
						outs[k] = reflect.Zero(f.Type.Out(k))
					}
					return outs
				}))
			} else {
				panic("no constructor for token field " + f.Name)
			}
		case "list":
			n := 1 + g.r.Intn(2)
			s := reflect.MakeSlice(f.Type, 0, n)
			for k := 0; k < n; k++ {
				g.nextTok++
				s = reflect.Append(s, reflect.ValueOf(&tokRun{g.nextTok}).Convert(reflect.TypeOf(&tokRun{})))
			}
			fv.Set(s)
		case "map":
			m := reflect.MakeMap(f.Type)
			for k := 0; k < 1+g.r.Intn(3); k++ {
				g.nextTok++
				m.SetMapIndex(reflect.ValueOf(g.r.Intn(4)), reflect.ValueOf(g.nextTok))
			}
			fv.Set(m)
		}
	}
}

// coq renders a struct value as a Coq record literal of the generated type.
func coq(v reflect.Value) string {
	t := v.Type()
	cn := coqName(t)
	var parts []string
	for i := 0; i < t.NumField(); i++ {
		f := t.Field(i)
		if !f.IsExported() {
			continue
		}
		fv := v.Field(i)
		var s string
		switch kindOf(f.Type) {
		case "num":
			s = fmt.Sprintf("(%d)", fv.Int())
		case "bool":
			s = fmt.Sprint(fv.Bool())
		case "tok":
			if fv.IsNil() {
				s = "None"
			} else {
				lastTok = -1
				args := make([]reflect.Value, f.Type.NumIn())
				for k := range args {
					args[k] = reflect.Zero(f.Type.In(k))
				}
				fv.Call(args)
				s = fmt.Sprintf("(Some %d%%nat)", lastTok)
			}
		case "list":
			var el []string
			for k := 0; k < fv.Len(); k++ {
				el = append(el, fmt.Sprintf("%d%%nat", fv.Index(k).Interface().(*tokRun).id))
			}
			s = "[" + strings.Join(el, "; ") + "]"
		case "map":
			var keys []int
			for _, k := range fv.MapKeys() {
				keys = append(keys, k.Interface().(int))
			}
			sort.Ints(keys)
			var el []string
			for _, k := range keys {
				el = append(el, fmt.Sprintf("(%d%%nat, %d%%nat)", k, fv.MapIndex(reflect.ValueOf(k)).Interface().(int)))
			}
			s = "[" + strings.Join(el, "; ") + "]"
		case "struct":
			s = coq(fv)
		default:
			s = "UNSUPPORTED"
		}
		parts = append(parts, fmt.Sprintf("%s_%s := %s", cn, f.Name, s))
	}
	return "{| " + strings.Join(parts, "; ") + " |}"
}

func collect(t reflect.Type, into map[string][]tabEntry, order *[]string) {
	if _, ok := into[t.Name()+"@"+t.PkgPath()]; ok {
		return
	}
	var l []tabEntry
	for i := 0; i < t.NumField(); i++ {
		f := t.Field(i)
		if !f.IsExported() {
			continue
		}
		l = append(l, tabEntry{Type: t.Name(), Field: f.Name, Kind: kindOf(f.Type)})
		if f.Type.Kind() == reflect.Struct {
			collect(f.Type, into, order)
		}
	}
	into[t.Name()+"@"+t.PkgPath()] = l
	*order = append(*order, t.Name()+"@"+t.PkgPath())
}

func main() {
	table := flag.String("table", "", "field table written by the translator")
	out := flag.String("out", "", "Coq cases file")
	js := flag.String("json", "", "JSON summary")
	seed := flag.Int64("seed", 1, "seed")
	n := flag.Int("n", 6, "random global combinations per type in addition to the per-field ones")
	flag.Parse()
	var tab []tabEntry
	b, err := os.ReadFile(*table)
	if err != nil {
		fmt.Fprintln(os.Stderr, err)
		os.Exit(3)
	}
	if err := json.Unmarshal(b, &tab); err != nil {
		fmt.Fprintln(os.Stderr, err)
		os.Exit(3)
	}
	// 1. the translation covers exactly the fields reflection reports
	refl := map[string][]tabEntry{}
	var order []string
	for _, r := range roots {
		collect(reflect.TypeOf(r).Elem(), refl, &order)
	}
	var problems []string
	seenTypes := map[string]bool{}
	byType := map[string][]tabEntry{}
	for _, e := range tab {
		byType[e.Type+"@"+e.Pkg] = append(byType[e.Type+"@"+e.Pkg], e)
	}
	for key, fields := range refl {
		name := key[:strings.Index(key, "@")]
		pkgPath := key[strings.Index(key, "@")+1:]
		var tfields []tabEntry
		for k, v := range byType {
			kn, kp := k[:strings.Index(k, "@")], k[strings.Index(k, "@")+1:]
			if kn == name && (strings.HasSuffix(pkgPath, "/"+kp) || (kp == "." && strings.HasSuffix(pkgPath, "/v4"))) {
				tfields = v
				seenTypes[k] = true
			}
		}
		if len(tfields) != len(fields) {
			problems = append(problems, fmt.Sprintf("type %s: translator has %d fields, reflection %d", name, len(tfields), len(fields)))
			continue
		}
		for i := range fields {
			if fields[i].Field != tfields[i].Field || fields[i].Kind != tfields[i].Kind {
				problems = append(problems, fmt.Sprintf("type %s field %d: translator %s:%s, reflection %s:%s", name, i, tfields[i].Field, tfields[i].Kind, fields[i].Field, fields[i].Kind))
			}
		}
	}
	for k := range byType {
		if !seenTypes[k] {
			problems = append(problems, "type "+k+" has a Merge method but is not reachable from the cross-check's registry of exported Merge entry points")
		}
	}
	// 2. differential cases
	var sb strings.Builder
	sb.WriteString("From CV Require Import Base.MergeBase Gen.MergeGen.\n")
	total := 0
	var names []string
	var samples []string
	for ri, r := range roots {
		rt := reflect.TypeOf(r).Elem()
		cn := coqName(rt)
		// every field path below this root
		var paths []string
		var walk func(t reflect.Type)
		walk = func(t reflect.Type) {
			for i := 0; i < t.NumField(); i++ {
				f := t.Field(i)
				if !f.IsExported() {
					continue
				}
				if f.Type.Kind() == reflect.Struct {
					walk(f.Type)
				} else {
					paths = append(paths, t.Name()+"."+f.Name)
				}
			}
		}
		walk(rt)
		var cases []string
		mk := func(forceC, forceO map[string]int, id int) {
			g := &gen{r: rand.New(rand.NewSource(*seed*1000003 + int64(ri)*7919 + int64(id))), nextTok: 16 * id}
			c := reflect.New(rt)
			o := reflect.New(rt)
			g.force = forceC
			g.fill(c.Elem(), 0)
			g.force = forceO
			g.fill(o.Elem(), 1)
			cs, os_ := coq(c.Elem()), coq(o.Elem())
			want := reflect.New(rt)
			expected(c.Elem(), o.Elem(), want.Elem())
			m := c.MethodByName("Merge")
			m.Call([]reflect.Value{o.Elem()})
			res := coq(c.Elem())
			if w := coq(want.Elem()); w != res {
				violations = append(violations, fmt.Sprintf("%s: receiver %s merged with %s gives %s, the property requires %s", cn, cs, os_, res, w))
			}
			cases = append(cases, fmt.Sprintf(" (%d%%nat, %s,\n   %s,\n   %s)", id, cs, os_, res))
			if len(samples) < 2 {
				samples = append(samples, fmt.Sprintf("%s: receiver %s merged with %s gives %s", cn, cs, os_, res))
			}
		}
		id := 0
		for _, p := range paths {
			for _, combo := range [][2]int{{0, 0}, {0, 1}, {1, 0}, {1, 1}} {
				mk(map[string]int{p: combo[0]}, map[string]int{p: combo[1]}, id)
				id++
			}
		}
		for k := 0; k < *n; k++ {
			mk(map[string]int{}, map[string]int{}, id)
			id++
		}
		total += len(cases)
		fmt.Fprintf(&sb, "Definition cases_%s : list (nat * %s * %s * %s) := [\n%s\n].\n", cn, cn, cn, cn, strings.Join(cases, ";\n"))
		fmt.Fprintf(&sb, "Definition bad_%s : list nat := flat_map (fun q : nat * %s * %s * %s => let '(id, c, o, r) := q in if same_%s (merge_%s c o) r then [] else [id]) cases_%s.\n", cn, cn, cn, cn, cn, cn, cn)
		names = append(names, "bad_"+cn)
	}
	var items []string
	for i, nm := range names {
		items = append(items, fmt.Sprintf("map (fun i => (%d%%nat, i)) %s", i, nm))
	}
	fmt.Fprintf(&sb, "Definition result := Eval vm_compute in %s.\nPrint result.\n", strings.Join(items, " ++ "))
	if err := os.WriteFile(*out, []byte(sb.String()), 0o644); err != nil {
		fmt.Fprintln(os.Stderr, err)
		os.Exit(3)
	}
	summary := map[string]interface{}{"violations": violations, "cases": total, "types": len(refl), "fields": len(tab), "problems": problems, "samples": samples, "roots": len(roots)}
	sj, _ := json.MarshalIndent(summary, "", " ")
	_ = os.WriteFile(*js, sj, 0o644)
	fmt.Printf("mergecheck: %d cases over %d types; %d table problems\n", total, len(refl), len(problems))
	for _, p := range problems {
		fmt.Println("  problem:", p)
	}
}
