// racehunt: mixed control-plane / data-plane load on one manager's circuits, built
// with -race.  It is the SEARCH side of property C11 (b, c, d): a data race report,
// a panic or a hang here is a concrete counterexample; its silence proves nothing
// (the theorem over the regenerated access table is what decides).
//
//	racehunt -d 5s -seed 1
//
// Exit 0: nothing found.  Exit 66: the race detector reported (GORACE exitcode).
// Exit 3: a panic escaped an operation.  Exit 4: no progress for 20 s (deadlock).
package main

import (
	"context"
	"encoding/json"
	"errors"
	"flag"
	"fmt"
	"io"
	"math/rand"
	"net/http"
	"net/http/httptest"
	"os"
	"runtime"
	"sync"
	"sync/atomic"
	"time"

	"github.com/cep21/circuit/v4"
	"github.com/cep21/circuit/v4/closers/hystrix"
	"github.com/cep21/circuit/v4/metriceventstream"
	"github.com/cep21/circuit/v4/metrics/responsetimeslo"
	"github.com/cep21/circuit/v4/metrics/rolling"
)

var progress int64
var panics int64
var firstPanic atomic.Value

func guard(what string, f func()) {
	defer func() {
		if r := recover(); r != nil {
			if s, ok := r.(string); ok && s == "expected-panic" {
				return
			}
			if atomic.AddInt64(&panics, 1) == 1 {
				buf := make([]byte, 4096)
				buf = buf[:runtime.Stack(buf, false)]
				firstPanic.Store(fmt.Sprintf("%s: %v\n%s", what, r, buf))
			}
		}
	}()
	f()
	atomic.AddInt64(&progress, 1)
}

func main() {
	dur := flag.Duration("d", 5*time.Second, "how long to run")
	seed := flag.Int64("seed", 1, "seed")
	flag.Parse()
	sf := &rolling.StatFactory{}
	slo := &responsetimeslo.Factory{Config: responsetimeslo.Config{MaximumHealthyTime: time.Millisecond}}
	hf := &hystrix.Factory{ConfigureOpener: hystrix.ConfigureOpener{RequestVolumeThreshold: 4, ErrorThresholdPercentage: 40},
		ConfigureCloser: hystrix.ConfigureCloser{SleepWindow: time.Millisecond, HalfOpenAttempts: 2, RequiredConcurrentSuccessful: 2}}
	var trackers sync.Map
	m := &circuit.Manager{DefaultCircuitProperties: []circuit.CommandPropertiesConstructor{hf.Configure, sf.CreateConfig, func(name string) circuit.Config {
		cfg := slo.CommandProperties(name)
		trackers.Store(name, cfg.Metrics.Run[0].(*responsetimeslo.Tracker))
		return cfg
	}}}
	lost := func(error, interface{}) {}
	mk := func(name string) *circuit.Circuit {
		var cfg circuit.Config
		cfg.General.GoLostErrors = lost
		cfg.Execution.Timeout = 2 * time.Millisecond
		cfg.Execution.MaxConcurrentRequests = 3
		cfg.Fallback.MaxConcurrentRequests = 2
		return m.MustCreateCircuit(name, cfg)
	}
	circuits := []*circuit.Circuit{mk("a"), mk("b")}
	es := &metriceventstream.MetricEventStream{Manager: m, TickDuration: time.Millisecond}
	go func() { guard("eventstream.Start", func() { _ = es.Start() }) }()
	srv := httptest.NewServer(es)
	stop := make(chan struct{})
	var wg sync.WaitGroup
	errRun := errors.New("run")
	worker := func(id int, body func(r *rand.Rand)) {
		wg.Add(1)
		go func() {
			defer wg.Done()
			r := rand.New(rand.NewSource(*seed*1000 + int64(id)))
			for {
				select {
				case <-stop:
					return
				default:
				}
				body(r)
			}
		}()
	}
	// ---- data plane: every outcome kind, Execute and Go, with and without fallbacks
	for w := 0; w < 6; w++ {
		worker(w, func(r *rand.Rand) {
			c := circuits[r.Intn(len(circuits))]
			kind := r.Intn(8)
			ctx, cancel := context.WithCancel(context.Background())
			run := func(ctx context.Context) error {
				switch kind {
				case 0:
					return nil
				case 1:
					return errRun
				case 2:
					return circuit.SimpleBadRequest{Err: errRun}
				case 3:
					cancel()
					return errRun // interrupt: caller context done, error returned
				case 4:
					select { // time out
					case <-ctx.Done():
					case <-time.After(4 * time.Millisecond):
					}
					return ctx.Err()
				case 5:
					panic("expected-panic")
				case 6:
					time.Sleep(200 * time.Microsecond) // hold a slot so that others are rejected
					return nil
				}
				return fmt.Errorf("wrapped: %w", circuit.SimpleBadRequest{Err: errRun})
			}
			var fb func(context.Context, error) error
			if r.Intn(2) == 0 {
				fbFails := r.Intn(3) == 0
				fb = func(context.Context, error) error {
					if fbFails {
						return errRun
					}
					return nil
				}
			}
			guard("call", func() {
				if r.Intn(3) == 0 {
					_ = c.Go(ctx, run, fb)
				} else {
					_ = c.Execute(ctx, run, fb)
				}
			})
			cancel()
		})
	}
	// ---- control plane
	worker(100, func(r *rand.Rand) {
		c := circuits[r.Intn(len(circuits))]
		guard("Circuit.SetConfigThreadSafe", func() {
			var cfg circuit.Config // partially filled on purpose
			if r.Intn(2) == 0 {
				cfg.General.TimeKeeper.Now = time.Now
			}
			if r.Intn(2) == 0 {
				cfg.General.GoLostErrors = lost
			}
			if r.Intn(2) == 0 {
				verdict := r.Intn(2) == 0
				cfg.Execution.IsErrInterrupt = func(error) bool { return verdict }
			}
			cfg.General.ForceOpen = r.Intn(10) == 0
			cfg.General.ForcedClosed = r.Intn(10) == 0
			cfg.Execution.Timeout = []time.Duration{0, -1, time.Millisecond, 2 * time.Millisecond}[r.Intn(4)]
			cfg.Execution.MaxConcurrentRequests = []int64{-1, 1, 3}[r.Intn(3)]
			cfg.Fallback.MaxConcurrentRequests = []int64{-1, 0, 2}[r.Intn(3)]
			cfg.Execution.IgnoreInterrupts = r.Intn(4) == 0
			c.SetConfigThreadSafe(cfg)
		})
		time.Sleep(50 * time.Microsecond)
	})
	worker(101, func(r *rand.Rand) {
		c := circuits[r.Intn(len(circuits))]
		guard("opener/closer/tracker SetConfigThreadSafe", func() {
			switch r.Intn(3) {
			case 0:
				c.ClosedToOpen.(*hystrix.Opener).SetConfigThreadSafe(hystrix.ConfigureOpener{RequestVolumeThreshold: int64(1 + r.Intn(5)), ErrorThresholdPercentage: int64(r.Intn(100))})
			case 1:
				cc := hystrix.ConfigureCloser{SleepWindow: time.Duration(r.Intn(3)) * time.Millisecond, HalfOpenAttempts: int64(r.Intn(3)), RequiredConcurrentSuccessful: int64(r.Intn(3))}
				if r.Intn(2) == 0 {
					cc.AfterFunc = time.AfterFunc
				}
				c.OpenToClose.(*hystrix.Closer).SetConfigThreadSafe(cc)
			case 2:
				if t, ok := trackers.Load(c.Name()); ok {
					t.(*responsetimeslo.Tracker).SetConfigThreadSafe(responsetimeslo.Config{MaximumHealthyTime: time.Duration(r.Intn(3)) * time.Millisecond})
				}
			}
		})
		time.Sleep(50 * time.Microsecond)
	})
	worker(102, func(r *rand.Rand) {
		c := circuits[r.Intn(len(circuits))]
		guard("OpenCircuit/CloseCircuit", func() {
			if r.Intn(2) == 0 {
				c.OpenCircuit(context.Background())
			} else {
				c.CloseCircuit(context.Background())
			}
		})
		time.Sleep(100 * time.Microsecond)
	})
	// ---- diagnostics
	worker(103, func(r *rand.Rand) {
		c := circuits[r.Intn(len(circuits))]
		guard("diagnostics", func() {
			_ = c.Config()
			_ = c.IsOpen()
			_ = c.ConcurrentCommands()
			_ = c.ConcurrentFallbacks()
			_ = c.Var().String()
			_ = m.Var().String()
			rs := sf.RunStats(c.Name())
			_ = rs.Var().String()
			_ = rs.Latencies.Snapshot().Mean()
			_ = rs.ErrorPercentage()
			_ = sf.FallbackStats(c.Name()).Var().String()
			if t, ok := trackers.Load(c.Name()); ok {
				_ = t.(*responsetimeslo.Tracker).Var().String()
			}
			_, _ = json.Marshal(c.ClosedToOpen)
			_, _ = json.Marshal(c.OpenToClose)
			_ = m.AllCircuits()
			_ = m.GetCircuit("a")
		})
	})
	worker(104, func(r *rand.Rand) {
		guard("event stream listener", func() {
			ctx, cancel := context.WithTimeout(context.Background(), 5*time.Millisecond)
			defer cancel()
			req, _ := http.NewRequest("GET", srv.URL, nil)
			resp, err := http.DefaultClient.Do(req.WithContext(ctx))
			if err == nil {
				_, _ = io.Copy(io.Discard, resp.Body)
				resp.Body.Close()
			}
		})
	})
	// ---- watchdog
	deadline := time.After(*dur)
	last, lastAt := int64(-1), time.Now()
	code := 0
loop:
	for {
		select {
		case <-deadline:
			break loop
		case <-time.After(200 * time.Millisecond):
			p := atomic.LoadInt64(&progress)
			if p != last {
				last, lastAt = p, time.Now()
			} else if time.Since(lastAt) > 20*time.Second {
				fmt.Println("RACEHUNT DEADLOCK: no operation completed for 20s")
				buf := make([]byte, 1<<16)
				buf = buf[:runtime.Stack(buf, true)]
				os.Stdout.Write(buf)
				os.Exit(4)
			}
		}
	}
	close(stop)
	done := make(chan struct{})
	go func() { wg.Wait(); close(done) }()
	select {
	case <-done:
	case <-time.After(20 * time.Second):
		fmt.Println("RACEHUNT DEADLOCK: workers did not stop within 20s")
		buf := make([]byte, 1<<16)
		buf = buf[:runtime.Stack(buf, true)]
		os.Stdout.Write(buf)
		os.Exit(4)
	}
	_ = es.Close()
	srv.Close()
	if n := atomic.LoadInt64(&panics); n > 0 {
		fmt.Printf("RACEHUNT PANIC (%d): %v\n", n, firstPanic.Load())
		code = 3
	}
	fmt.Printf("racehunt: %d operations completed\n", atomic.LoadInt64(&progress))
	os.Exit(code)
}
