// translate: reads cep21/circuit's Go sources in /repo's working tree and emits
// Coq.  Mode "merge" (property C19): for every struct type with a Merge/merge
// method it emits a record with every field the struct declares today, the
// Merge function translated statement by statement from the recognised idioms,
// and one lemma per field whose STATEMENT is chosen by the field's type (not by
// what Merge does).  A construct outside the recognised subset is a translation
// failure (exit 3), never skipped.
package main

import (
	"flag"
	"fmt"
	"go/ast"
	"go/parser"
	"go/printer"
	"go/token"
	"os"
	"path/filepath"
	"sort"
	"strings"
)

type fieldKind int

const (
	kNum fieldKind = iota
	kBool
	kTok
	kList
	kMap
	kStruct
)

type field struct {
	Name   string
	Kind   fieldKind
	Struct string // qualified type name for kStruct
	GoType string
}

type cfgType struct {
	Pkg     string // directory relative to repo
	PkgName string
	Name    string
	Fields  []field
	Decl    *ast.StructType
	Merge   *ast.FuncDecl
	Methods map[string]*ast.FuncDecl
	File    string
}

func (t *cfgType) coqName() string { return strings.ReplaceAll(t.PkgName, "/", "_") + "_" + t.Name }

var fset = token.NewFileSet()

func fail(pos token.Pos, format string, a ...interface{}) {
	fmt.Fprintf(os.Stderr, "TRANSLATION FAILURE at %s: %s\n", fset.Position(pos), fmt.Sprintf(format, a...))
	os.Exit(3)
}

func src(n ast.Node) string {
	var sb strings.Builder
	_ = printer.Fprint(&sb, fset, n)
	return sb.String()
}

var mergeDirs = []string{".", "closers/hystrix", "closers/simplelogic", "metrics/rolling", "metrics/responsetimeslo"}

func main() {
	if len(os.Args) < 2 {
		fmt.Fprintln(os.Stderr, "usage: translate merge|access|retry -repo /repo -out file.v")
		os.Exit(2)
	}
	fs := flag.NewFlagSet(os.Args[1], flag.ExitOnError)
	repo := fs.String("repo", "/repo", "repository root")
	out := fs.String("out", "", "output .v file")
	table := fs.String("table", "", "also write the field table as JSON (for the reflection cross-check)")
	_ = fs.Parse(os.Args[2:])
	switch os.Args[1] {
	case "merge":
		types := loadMergeTypes(*repo)
		emitMerge(types, *out, *table)
	case "access":
		emitAccess(*repo, *out, *table)
	case "retry":
		emitRetry(*repo, *table)
	default:
		fmt.Fprintln(os.Stderr, "unknown mode")
		os.Exit(2)
	}
}

func parseDir(repo, dir string) (string, []*ast.File, []string) {
	pkgs, err := parser.ParseDir(fset, filepath.Join(repo, dir), func(fi os.FileInfo) bool {
		return !strings.HasSuffix(fi.Name(), "_test.go")
	}, parser.ParseComments)
	if err != nil {
		fmt.Fprintln(os.Stderr, "TRANSLATION FAILURE: cannot parse", dir, err)
		os.Exit(3)
	}
	for name, p := range pkgs {
		var files []*ast.File
		var names []string
		var keys []string
		for k := range p.Files {
			keys = append(keys, k)
		}
		sort.Strings(keys)
		for _, k := range keys {
			files = append(files, p.Files[k])
			names = append(names, k)
		}
		return name, files, names
	}
	return "", nil, nil
}

func loadMergeTypes(repo string) []*cfgType {
	byName := map[string]*cfgType{}
	var order []*cfgType
	for _, dir := range mergeDirs {
		pkgName, files, names := parseDir(repo, dir)
		structs := map[string]*ast.StructType{}
		structFile := map[string]string{}
		methods := map[string]map[string]*ast.FuncDecl{}
		for fi, f := range files {
			for _, d := range f.Decls {
				switch x := d.(type) {
				case *ast.GenDecl:
					for _, s := range x.Specs {
						if ts, ok := s.(*ast.TypeSpec); ok {
							if st, ok := ts.Type.(*ast.StructType); ok {
								structs[ts.Name.Name] = st
								structFile[ts.Name.Name] = names[fi]
							}
						}
					}
				case *ast.FuncDecl:
					if x.Recv == nil || len(x.Recv.List) != 1 {
						continue
					}
					rt := x.Recv.List[0].Type
					if se, ok := rt.(*ast.StarExpr); ok {
						rt = se.X
					}
					if id, ok := rt.(*ast.Ident); ok {
						if methods[id.Name] == nil {
							methods[id.Name] = map[string]*ast.FuncDecl{}
						}
						methods[id.Name][x.Name.Name] = x
					}
				}
			}
		}
		var tnames []string
		for n := range structs {
			tnames = append(tnames, n)
		}
		sort.Strings(tnames)
		for _, n := range tnames {
			m := methods[n]["Merge"]
			if m == nil {
				m = methods[n]["merge"]
			}
			if m == nil {
				continue
			}
			// only methods of the shape func (c *T) Merge(other T) [*T]
			if m.Type.Params == nil || len(m.Type.Params.List) != 1 {
				continue
			}
			pt, ok := m.Type.Params.List[0].Type.(*ast.Ident)
			if !ok || pt.Name != n {
				continue
			}
			t := &cfgType{Pkg: dir, PkgName: pkgName, Name: n, Decl: structs[n], Merge: m, Methods: methods[n], File: structFile[n]}
			byName[pkgName+"."+n] = t
			order = append(order, t)
		}
	}
	// fields (needs the set of config types for nested structs)
	for _, t := range order {
		for _, f := range t.Decl.Fields.List {
			if len(f.Names) == 0 {
				fail(f.Pos(), "embedded field in %s", t.Name)
			}
			for _, nm := range f.Names {
				fd := field{Name: nm.Name, GoType: src(f.Type)}
				switch x := f.Type.(type) {
				case *ast.Ident:
					switch x.Name {
					case "int", "int64", "int32", "uint", "uint64":
						fd.Kind = kNum
					case "bool":
						fd.Kind = kBool
					default:
						if _, ok := byName[t.PkgName+"."+x.Name]; ok {
							fd.Kind, fd.Struct = kStruct, t.PkgName+"."+x.Name
						} else {
							fail(f.Pos(), "field %s.%s has unsupported type %s", t.Name, nm.Name, x.Name)
						}
					}
				case *ast.SelectorExpr:
					if src(x) == "time.Duration" {
						fd.Kind = kNum
					} else {
						fail(f.Pos(), "field %s.%s has unsupported type %s", t.Name, nm.Name, src(x))
					}
				case *ast.FuncType, *ast.InterfaceType, *ast.StarExpr:
					fd.Kind = kTok
				case *ast.ArrayType:
					if x.Len != nil {
						fail(f.Pos(), "array field %s.%s", t.Name, nm.Name)
					}
					fd.Kind = kList
				case *ast.MapType:
					fd.Kind = kMap
				default:
					fail(f.Pos(), "field %s.%s has unsupported type %s", t.Name, nm.Name, src(f.Type))
				}
				t.Fields = append(t.Fields, fd)
			}
		}
	}
	// nested types first
	var sorted []*cfgType
	done := map[*cfgType]bool{}
	var visit func(t *cfgType)
	visit = func(t *cfgType) {
		if done[t] {
			return
		}
		done[t] = true
		for _, f := range t.Fields {
			if f.Kind == kStruct {
				visit(byName[f.Struct])
			}
		}
		sorted = append(sorted, t)
	}
	for _, t := range order {
		visit(t)
	}
	for _, t := range sorted {
		for i := range t.Fields {
			if t.Fields[i].Kind == kStruct {
				t.Fields[i].Struct = byName[t.Fields[i].Struct].coqName()
			}
		}
	}
	return sorted
}

// ---------------------------------------------------------------- Merge bodies
type symState struct {
	t     *cfgType
	recv  string
	other string
	expr  map[string]string // field -> Coq expression of its current value
}

func (s *symState) fieldOf(e ast.Expr, base string) (string, bool) {
	se, ok := e.(*ast.SelectorExpr)
	if !ok {
		return "", false
	}
	id, ok := se.X.(*ast.Ident)
	if !ok || id.Name != base {
		return "", false
	}
	return se.Sel.Name, true
}

func (s *symState) kind(f string, pos token.Pos) field {
	for _, fd := range s.t.Fields {
		if fd.Name == f {
			return fd
		}
	}
	fail(pos, "Merge of %s mentions unknown field %s", s.t.Name, f)
	return field{}
}

func proj(t *cfgType, f string) string { return t.coqName() + "_" + f }

func (s *symState) otherVal(f string) string { return fmt.Sprintf("(%s o)", proj(s.t, f)) }

func (s *symState) assignFromOther(st ast.Stmt) (string, bool) {
	as, ok := st.(*ast.AssignStmt)
	if !ok || len(as.Lhs) != 1 || len(as.Rhs) != 1 || as.Tok != token.ASSIGN {
		return "", false
	}
	lf, ok1 := s.fieldOf(as.Lhs[0], s.recv)
	rf, ok2 := s.fieldOf(as.Rhs[0], s.other)
	if !ok1 || !ok2 || lf != rf {
		return "", false
	}
	return lf, true
}

func (s *symState) stmt(st ast.Stmt) {
	switch x := st.(type) {
	case *ast.ReturnStmt:
		return
	case *ast.IfStmt:
		if x.Init != nil || x.Else != nil {
			// the map idiom has no else either; anything with init/else is outside the subset
			fail(x.Pos(), "unsupported if statement: %s", src(x.Cond))
		}
		// map idiom: if len(other.M) != 0 { if c.M == nil { c.M = make(...) }; for k, v := range other.M { if _, ok := c.M[k]; !ok { c.M[k] = v } } }
		if f, ok := s.mapIdiom(x); ok {
			s.expr[f] = fmt.Sprintf("(map_union %s %s)", s.expr[f], s.otherVal(f))
			return
		}
		if len(x.Body.List) != 1 {
			fail(x.Pos(), "unsupported if body (%d statements)", len(x.Body.List))
		}
		f, ok := s.assignFromOther(x.Body.List[0])
		if !ok {
			fail(x.Body.List[0].Pos(), "unsupported statement in if: %s", src(x.Body.List[0]))
		}
		fd := s.kind(f, x.Pos())
		switch c := x.Cond.(type) {
		case *ast.BinaryExpr:
			cf, ok := s.fieldOf(c.X, s.recv)
			if !ok || cf != f || c.Op != token.EQL {
				fail(x.Pos(), "unsupported condition: %s", src(x.Cond))
			}
			switch rhs := src(c.Y); {
			case rhs == "0" && fd.Kind == kNum:
				s.expr[f] = fmt.Sprintf("(if %s =? 0 then %s else %s)", s.expr[f], s.otherVal(f), s.expr[f])
			case rhs == "nil" && fd.Kind == kTok:
				s.expr[f] = fmt.Sprintf("(match %s with Some v => Some v | None => %s end)", s.expr[f], s.otherVal(f))
			default:
				fail(x.Pos(), "unsupported zero test %s for field kind of %s", src(x.Cond), f)
			}
		case *ast.UnaryExpr:
			cf, ok := s.fieldOf(c.X, s.recv)
			if !ok || cf != f || c.Op != token.NOT || fd.Kind != kBool {
				fail(x.Pos(), "unsupported condition: %s", src(x.Cond))
			}
			s.expr[f] = fmt.Sprintf("(if negb %s then %s else %s)", s.expr[f], s.otherVal(f), s.expr[f])
		default:
			fail(x.Pos(), "unsupported condition: %s", src(x.Cond))
		}
	case *ast.AssignStmt:
		// c.F = append(c.F, other.F...)
		if len(x.Lhs) == 1 && len(x.Rhs) == 1 && x.Tok == token.ASSIGN {
			if lf, ok := s.fieldOf(x.Lhs[0], s.recv); ok {
				if call, ok := x.Rhs[0].(*ast.CallExpr); ok && src(call.Fun) == "append" && len(call.Args) == 2 && call.Ellipsis.IsValid() {
					a0, ok0 := s.fieldOf(call.Args[0], s.recv)
					a1, ok1 := s.fieldOf(call.Args[1], s.other)
					if ok0 && ok1 && a0 == lf && a1 == lf && s.kind(lf, x.Pos()).Kind == kList {
						s.expr[lf] = fmt.Sprintf("(%s ++ %s)", s.expr[lf], s.otherVal(lf))
						return
					}
				}
			}
		}
		fail(x.Pos(), "unsupported assignment: %s", src(x))
	case *ast.ExprStmt:
		call, ok := x.X.(*ast.CallExpr)
		if !ok {
			fail(x.Pos(), "unsupported statement: %s", src(x))
		}
		sel, ok := call.Fun.(*ast.SelectorExpr)
		if !ok || len(call.Args) != 1 {
			fail(x.Pos(), "unsupported call: %s", src(x))
		}
		// c.F.merge(other.F) / c.F.Merge(other.F)
		if f, ok := s.fieldOf(sel.X, s.recv); ok && (sel.Sel.Name == "merge" || sel.Sel.Name == "Merge") {
			of, ok2 := s.fieldOf(call.Args[0], s.other)
			fd := s.kind(f, x.Pos())
			if !ok2 || of != f || fd.Kind != kStruct {
				fail(x.Pos(), "unsupported nested merge: %s", src(x))
			}
			s.expr[f] = fmt.Sprintf("(merge_%s %s %s)", fd.Struct, s.expr[f], s.otherVal(f))
			return
		}
		// c.helper(other): inline
		if id, ok := sel.X.(*ast.Ident); ok && id.Name == s.recv {
			if arg, ok := call.Args[0].(*ast.Ident); ok && arg.Name == s.other {
				m := s.t.Methods[sel.Sel.Name]
				if m == nil {
					fail(x.Pos(), "call of unknown method %s", sel.Sel.Name)
				}
				sub := &symState{t: s.t, expr: s.expr, recv: m.Recv.List[0].Names[0].Name, other: m.Type.Params.List[0].Names[0].Name}
				for _, st := range m.Body.List {
					sub.stmt(st)
				}
				return
			}
		}
		fail(x.Pos(), "unsupported call: %s", src(x))
	default:
		fail(st.Pos(), "unsupported statement: %s", src(st))
	}
}

func (s *symState) mapIdiom(x *ast.IfStmt) (string, bool) {
	c, ok := x.Cond.(*ast.BinaryExpr)
	if !ok || c.Op != token.NEQ || src(c.Y) != "0" {
		return "", false
	}
	call, ok := c.X.(*ast.CallExpr)
	if !ok || src(call.Fun) != "len" || len(call.Args) != 1 {
		return "", false
	}
	f, ok := s.fieldOf(call.Args[0], s.other)
	if !ok || s.kind(f, x.Pos()).Kind != kMap || len(x.Body.List) != 2 {
		return "", false
	}
	// if c.M == nil { c.M = make(...) }
	i1, ok := x.Body.List[0].(*ast.IfStmt)
	if !ok || len(i1.Body.List) != 1 {
		return "", false
	}
	want := fmt.Sprintf("%s.%s == nil", s.recv, f)
	if src(i1.Cond) != want || !strings.HasPrefix(src(i1.Body.List[0]), fmt.Sprintf("%s.%s = make(", s.recv, f)) {
		return "", false
	}
	// for k, v := range other.M { if _, exists := c.M[k]; !exists { c.M[k] = v } }
	rs, ok := x.Body.List[1].(*ast.RangeStmt)
	if !ok || src(rs.X) != fmt.Sprintf("%s.%s", s.other, f) || len(rs.Body.List) != 1 {
		return "", false
	}
	k, v := src(rs.Key), src(rs.Value)
	i2, ok := rs.Body.List[0].(*ast.IfStmt)
	if !ok || i2.Init == nil || len(i2.Body.List) != 1 {
		return "", false
	}
	initS := src(i2.Init)
	if !strings.HasPrefix(initS, "_, ") || !strings.HasSuffix(initS, fmt.Sprintf(":= %s.%s[%s]", s.recv, f, k)) {
		return "", false
	}
	okVar := strings.TrimSpace(strings.TrimSuffix(strings.TrimPrefix(initS, "_, "), fmt.Sprintf(":= %s.%s[%s]", s.recv, f, k)))
	if src(i2.Cond) != "!"+okVar || src(i2.Body.List[0]) != fmt.Sprintf("%s.%s[%s] = %s", s.recv, f, k, v) {
		return "", false
	}
	return f, true
}

func coqType(fd field) string {
	switch fd.Kind {
	case kNum:
		return "Z"
	case kBool:
		return "bool"
	case kTok:
		return "tok"
	case kList:
		return "list nat"
	case kMap:
		return "amap"
	}
	return fd.Struct
}

func kindName(k fieldKind) string {
	return [...]string{"num", "bool", "tok", "list", "map", "struct"}[k]
}

func emitMerge(types []*cfgType, out, table string) {
	var b strings.Builder
	b.WriteString("(* GENERATED by harness/cmd/translate from /repo's working tree -- do not edit, never committed. *)\n")
	b.WriteString("From CV Require Import Base.MergeBase.\n\n")
	var allLemmas []string
	type tabEntry struct {
		Type, Pkg, Field, Kind, GoType string
	}
	var tab []tabEntry
	for _, t := range types {
		cn := t.coqName()
		fmt.Fprintf(&b, "(* %s.%s  (%s) *)\nRecord %s := {\n", t.PkgName, t.Name, t.File, cn)
		for i, f := range t.Fields {
			sep := ";"
			if i == len(t.Fields)-1 {
				sep = ""
			}
			fmt.Fprintf(&b, "  %s : %s%s    (* %s *)\n", proj(t, f.Name), coqType(f), sep, strings.ReplaceAll(f.GoType, "*)", "* )"))
			tab = append(tab, tabEntry{t.Name, t.Pkg, f.Name, kindName(f.Kind), f.GoType})
		}
		b.WriteString("}.\n")
		s := &symState{t: t, expr: map[string]string{}, recv: t.Merge.Recv.List[0].Names[0].Name, other: t.Merge.Type.Params.List[0].Names[0].Name}
		for _, f := range t.Fields {
			s.expr[f.Name] = fmt.Sprintf("(%s c)", proj(t, f.Name))
		}
		for _, st := range t.Merge.Body.List {
			s.stmt(st)
		}
		fmt.Fprintf(&b, "Definition merge_%s (c o : %s) : %s := {|\n", cn, cn, cn)
		for i, f := range t.Fields {
			sep := ";"
			if i == len(t.Fields)-1 {
				sep = ""
			}
			fmt.Fprintf(&b, "  %s := %s%s\n", proj(t, f.Name), s.expr[f.Name], sep)
		}
		b.WriteString("|}.\n")
		fmt.Fprintf(&b, "Definition same_%s (a b : %s) : bool :=\n  true", cn, cn)
		for _, f := range t.Fields {
			pa, pb := fmt.Sprintf("(%s a)", proj(t, f.Name)), fmt.Sprintf("(%s b)", proj(t, f.Name))
			switch f.Kind {
			case kNum:
				fmt.Fprintf(&b, "\n  && (%s =? %s)", pa, pb)
			case kBool:
				fmt.Fprintf(&b, "\n  && Bool.eqb %s %s", pa, pb)
			case kTok:
				fmt.Fprintf(&b, "\n  && tok_eqb %s %s", pa, pb)
			case kList:
				fmt.Fprintf(&b, "\n  && natlist_eqb %s %s", pa, pb)
			case kMap:
				fmt.Fprintf(&b, "\n  && amap_equiv %s %s", pa, pb)
			case kStruct:
				fmt.Fprintf(&b, "\n  && same_%s %s %s", f.Struct, pa, pb)
			}
		}
		b.WriteString(".\n")
		for _, f := range t.Fields {
			var spec string
			switch f.Kind {
			case kNum:
				spec = "fills_gap_num"
			case kBool:
				spec = "switch_or"
			case kTok:
				spec = "fills_gap_tok"
			case kList:
				spec = "list_appends"
			case kMap:
				spec = "map_unites"
			case kStruct:
				spec = "nested_merges merge_" + cn + " merge_" + f.Struct
			}
			ln := fmt.Sprintf("%s_%s_ok", cn, f.Name)
			if f.Kind == kStruct {
				fmt.Fprintf(&b, "Lemma %s : %s %s.\nProof. merge_field. Qed.\n", ln, spec, proj(t, f.Name))
			} else {
				fmt.Fprintf(&b, "Lemma %s : %s merge_%s %s.\nProof. merge_field. Qed.\n", ln, spec, cn, proj(t, f.Name))
			}
			allLemmas = append(allLemmas, ln)
		}
		fmt.Fprintf(&b, "Definition field_count_%s : nat := %d.\n\n", cn, len(t.Fields))
	}
	// the conjunction over every field of every type
	b.WriteString("(* every exported field of every configuration type with a Merge method *)\n")
	b.WriteString("Definition all_fields_statement : Prop :=\n")
	for i, t := range types {
		cn := t.coqName()
		for j, f := range t.Fields {
			var spec string
			switch f.Kind {
			case kNum:
				spec = fmt.Sprintf("fills_gap_num merge_%s %s", cn, proj(t, f.Name))
			case kBool:
				spec = fmt.Sprintf("switch_or merge_%s %s", cn, proj(t, f.Name))
			case kTok:
				spec = fmt.Sprintf("fills_gap_tok merge_%s %s", cn, proj(t, f.Name))
			case kList:
				spec = fmt.Sprintf("list_appends merge_%s %s", cn, proj(t, f.Name))
			case kMap:
				spec = fmt.Sprintf("map_unites merge_%s %s", cn, proj(t, f.Name))
			case kStruct:
				spec = fmt.Sprintf("nested_merges merge_%s merge_%s %s", cn, f.Struct, proj(t, f.Name))
			}
			end := " /\\"
			if i == len(types)-1 && j == len(t.Fields)-1 {
				end = "."
			}
			fmt.Fprintf(&b, "  %s%s\n", spec, end)
		}
	}
	b.WriteString("Lemma all_fields_proof : all_fields_statement.\nProof.\n  exact ")
	for i, l := range allLemmas {
		if i < len(allLemmas)-1 {
			fmt.Fprintf(&b, "(conj %s\n        ", l)
		} else {
			b.WriteString(l + strings.Repeat(")", len(allLemmas)-1) + ".\n")
		}
	}
	b.WriteString("Qed.\n")
	fmt.Fprintf(&b, "Definition total_field_count : nat := %d.\nDefinition type_count : nat := %d.\n", len(allLemmas), len(types))
	if err := os.WriteFile(out, []byte(b.String()), 0o644); err != nil {
		fmt.Fprintln(os.Stderr, err)
		os.Exit(3)
	}
	if table != "" {
		var tb strings.Builder
		tb.WriteString("[\n")
		for i, e := range tab {
			sep := ","
			if i == len(tab)-1 {
				sep = ""
			}
			fmt.Fprintf(&tb, " {\"type\": %q, \"pkg\": %q, \"field\": %q, \"kind\": %q, \"gotype\": %q}%s\n", e.Type, e.Pkg, e.Field, e.Kind, e.GoType, sep)
		}
		tb.WriteString("]\n")
		_ = os.WriteFile(table, []byte(tb.String()), 0o644)
	}
	fmt.Printf("translated %d types, %d fields\n", len(types), len(allLemmas))
}
