package main

import (
	"fmt"
	"os"
)

// emitAccess: C11/C17 access tables (built later).
func emitAccess(repo, out, table string) {
	fmt.Fprintln(os.Stderr, "access mode not built yet")
	os.Exit(3)
}
