package main

// Mode "access" (property C11 b, c; also the lock facts C17 relies on): a static
// reading of the working tree's synchronisation discipline.
//
// For every function of the library's packages it records
//   - every access to a PLAIN (non-atomic) field of a shared object type (a named
//     struct that contains a mutex or an atomic cell, directly or through by-value
//     nesting), as (function, owner type, field, read|write, locks held);
//   - every lock acquisition made while other locks are held, directly or through
//     calls (interface calls resolved to every implementing type in scope), as an
//     edge of the lock-order graph.
// Locks are named at type level ("circuit.Circuit.notThreadSafeConfigMu"); the
// lockset at a call site flows into unexported callees (intersection over call
// sites); a function literal starts with no locks (it may run later, elsewhere).
// Functions that the source documents as not safe for concurrent use
// (constructors New*, *NotThreadSafe, UnmarshalJSON, and unexported functions
// only they call) are marked init.  Everything is conservative in one direction:
// an access whose locks cannot be established is reported with FEWER locks, which
// can only make the discipline check fail, never pass wrongly.

import (
	"encoding/json"
	"fmt"
	"go/ast"
	"go/importer"
	"go/token"
	"go/types"
	"os"
	"path/filepath"
	"sort"
	"strings"
)

const modPath = "github.com/cep21/circuit/v4"

var accessDirs = []string{"faststats", "internal/evar", "internal/clock", ".", "closers/hystrix", "closers/simplelogic", "metrics/rolling", "metrics/responsetimeslo", "metriceventstream"}
var scopeDirs = map[string]bool{"faststats": true, ".": true, "closers/hystrix": true, "closers/simplelogic": true, "metrics/rolling": true, "metrics/responsetimeslo": true, "metriceventstream": true}

type lockMode int

const (
	modeR lockMode = 1
	modeW lockMode = 2
)

type lockset map[string]lockMode

func (l lockset) copy() lockset {
	r := lockset{}
	for k, v := range l {
		r[k] = v
	}
	return r
}
func meet(a, b lockset) lockset {
	r := lockset{}
	for k, v := range a {
		if w, ok := b[k]; ok {
			if w < v {
				v = w
			}
			r[k] = v
		}
	}
	return r
}
func join(a, b lockset) lockset {
	r := a.copy()
	for k, v := range b {
		if r[k] < v {
			r[k] = v
		}
	}
	return r
}
func (l lockset) list() []heldLock {
	var out []heldLock
	for k, v := range l {
		out = append(out, heldLock{k, v == modeW})
	}
	sort.Slice(out, func(i, j int) bool { return out[i].Lock < out[j].Lock })
	return out
}

type heldLock struct {
	Lock string `json:"lock"`
	Excl bool   `json:"excl"`
}

type accessRec struct {
	Func  string     `json:"func"`
	Owner string     `json:"owner"`
	Field string     `json:"field"`
	Write bool       `json:"write"`
	Locks []heldLock `json:"locks"`
	Init  bool       `json:"init"`
	Pos   string     `json:"pos"`
}

type edgeRec struct {
	From string `json:"from"`
	To   string `json:"to"`
	Func string `json:"func"`
	Pos  string `json:"pos"`
}

type callSite struct {
	callees []string
	held    lockset
	pos     token.Pos
}

type funcInfo struct {
	key      string
	decl     *ast.FuncDecl
	pkg      *pkgInfo
	exported bool
	entry    lockset
	init     bool
	accesses []accessRec
	calls    []callSite
	acquires map[string]token.Pos // locks acquired directly (any mode)
	acqEdges []edgeRec
	litEdges []edgeRec // held lock -> lock acquired inside a function literal passed as an argument (it may run inline)
}

type pkgInfo struct {
	dir   string
	name  string
	files []*ast.File
	tpkg  *types.Package
	info  *types.Info
}

type analysis struct {
	repo    string
	pkgs    map[string]*pkgInfo // by import path
	funcs   map[string]*funcInfo
	order   []string
	methods map[string][]*funcInfo // by method name, for interface resolution
	named   []*types.Named
	assertedFrom map[*types.Var]*types.Interface
}

type modImporter struct {
	a   *analysis
	std types.Importer
}

func (m modImporter) Import(path string) (*types.Package, error) {
	if p, ok := m.a.pkgs[path]; ok {
		return p.tpkg, nil
	}
	return m.std.Import(path)
}

func importPath(dir string) string {
	if dir == "." {
		return modPath
	}
	return modPath + "/" + dir
}

func loadAll(repo string) *analysis {
	a := &analysis{repo: repo, pkgs: map[string]*pkgInfo{}, funcs: map[string]*funcInfo{}, methods: map[string][]*funcInfo{}}
	std := importer.ForCompiler(fset, "source", nil)
	for _, dir := range accessDirs {
		if _, err := os.Stat(filepath.Join(repo, dir)); err != nil {
			continue
		}
		name, files, _ := parseDir(repo, dir)
		if len(files) == 0 {
			continue
		}
		info := &types.Info{Types: map[ast.Expr]types.TypeAndValue{}, Defs: map[*ast.Ident]types.Object{}, Uses: map[*ast.Ident]types.Object{},
			Selections: map[*ast.SelectorExpr]*types.Selection{}}
		conf := types.Config{Importer: modImporter{a, std}, Error: func(err error) {
			if os.Getenv("ACCESS_DEBUG") != "" {
				fmt.Fprintln(os.Stderr, "TYPEERR", err)
			}
		}}
		tp, err := conf.Check(importPath(dir), fset, files, info)
		if err != nil && tp == nil {
			fmt.Fprintln(os.Stderr, "TRANSLATION FAILURE: cannot type-check", dir, err)
			os.Exit(3)
		}
		a.pkgs[importPath(dir)] = &pkgInfo{dir: dir, name: name, files: files, tpkg: tp, info: info}
	}
	return a
}

// ---------- type predicates ----------
func isNamed(t types.Type, pkgSuffix, name string) bool {
	if p, ok := t.(*types.Pointer); ok {
		t = p.Elem()
	}
	n, ok := t.(*types.Named)
	if !ok || n.Obj().Pkg() == nil {
		return false
	}
	return n.Obj().Name() == name && (n.Obj().Pkg().Path() == pkgSuffix || strings.HasSuffix(n.Obj().Pkg().Path(), "/"+pkgSuffix))
}

func isMutex(t types.Type) bool { return isNamed(t, "sync", "Mutex") || isNamed(t, "sync", "RWMutex") }

// atomic cells: values whose methods are the only way in and are synchronised by construction
func isAtomicCell(t types.Type) bool {
	if p, ok := t.(*types.Pointer); ok {
		t = p.Elem()
	}
	n, ok := t.(*types.Named)
	if !ok || n.Obj().Pkg() == nil {
		return false
	}
	switch n.Obj().Pkg().Path() {
	case "sync", "sync/atomic":
		return true
	case modPath + "/faststats":
		return n.Obj().Name() == "AtomicInt64" || n.Obj().Name() == "AtomicBoolean"
	}
	return false
}

func structOf(t types.Type) (*types.Struct, *types.Named) {
	if p, ok := t.(*types.Pointer); ok {
		t = p.Elem()
	}
	n, _ := t.(*types.Named)
	s, _ := t.Underlying().(*types.Struct)
	return s, n
}

func inScopePkg(p *types.Package) bool {
	if p == nil {
		return false
	}
	if p.Path() == modPath {
		return true
	}
	if strings.HasPrefix(p.Path(), modPath+"/") {
		return scopeDirs[strings.TrimPrefix(p.Path(), modPath+"/")]
	}
	return false
}

var syncMemo = map[types.Type]bool{}

// does the struct contain, by value, a mutex or an atomic cell?
func hasSync(t types.Type, depth int) bool {
	if v, ok := syncMemo[t]; ok {
		return v
	}
	if depth > 6 {
		return false
	}
	s, _ := t.Underlying().(*types.Struct)
	if s == nil {
		return false
	}
	syncMemo[t] = false
	r := false
	for i := 0; i < s.NumFields(); i++ {
		ft := s.Field(i).Type()
		if isAtomicCell(ft) && !isPointerLike(ft) {
			r = true
			break
		}
		if _, ok := ft.Underlying().(*types.Struct); ok && hasSync(ft, depth+1) {
			r = true
			break
		}
		if arr, ok := ft.Underlying().(*types.Slice); ok && isAtomicCell(arr.Elem()) {
			r = true
			break
		}
	}
	syncMemo[t] = r
	return r
}

func isPointerLike(t types.Type) bool {
	switch t.Underlying().(type) {
	case *types.Pointer, *types.Interface, *types.Map, *types.Slice, *types.Chan, *types.Signature:
		return true
	}
	return false
}

// a shared object type: a named struct declared in scope that contains synchronisation
func sharedOwner(t types.Type) (string, bool) {
	if p, ok := t.(*types.Pointer); ok {
		t = p.Elem()
	}
	n, ok := t.(*types.Named)
	if !ok || !inScopePkg(n.Obj().Pkg()) || isAtomicCell(n) {
		return "", false
	}
	if _, ok := n.Underlying().(*types.Struct); !ok {
		return "", false
	}
	if !hasSync(n, 0) {
		return "", false
	}
	return typeName(n), true
}

func typeName(n *types.Named) string {
	p := n.Obj().Pkg().Path()
	short := "circuit"
	if p != modPath {
		short = strings.TrimPrefix(p, modPath+"/")
	}
	return short + "." + n.Obj().Name()
}

// ---------- per-function walk ----------
type walker struct {
	a  *analysis
	f  *funcInfo
	in *types.Info
}

func (a *analysis) funcKey(pkg *pkgInfo, d *ast.FuncDecl) string {
	short := "circuit"
	if pkg.dir != "." {
		short = pkg.dir
	}
	if d.Recv != nil && len(d.Recv.List) == 1 {
		t := d.Recv.List[0].Type
		if s, ok := t.(*ast.StarExpr); ok {
			t = s.X
		}
		if id, ok := t.(*ast.Ident); ok {
			return short + "." + id.Name + "." + d.Name.Name
		}
	}
	return short + "." + d.Name.Name
}

func (w *walker) pos(p token.Pos) string {
	ps := fset.Position(p)
	rel, err := filepath.Rel(w.a.repo, ps.Filename)
	if err != nil {
		rel = ps.Filename
	}
	return fmt.Sprintf("%s:%d", rel, ps.Line)
}

// the lock named by an expression of mutex type: owner type + field name
func (w *walker) lockName(x ast.Expr) (string, bool) {
	sel, ok := x.(*ast.SelectorExpr)
	if !ok {
		return "", false
	}
	tv, ok := w.in.Types[sel.X]
	if !ok {
		return "", false
	}
	_, n := structOf(tv.Type)
	if n == nil || !inScopePkg(n.Obj().Pkg()) {
		return "", false
	}
	return typeName(n) + "." + sel.Sel.Name, true
}

func (w *walker) lockCall(c *ast.CallExpr) (name string, op string, ok bool) {
	sel, isSel := c.Fun.(*ast.SelectorExpr)
	if !isSel {
		return
	}
	switch sel.Sel.Name {
	case "Lock", "Unlock", "RLock", "RUnlock":
	default:
		return
	}
	tv, has := w.in.Types[sel.X]
	if !has || !isMutex(tv.Type) {
		return
	}
	n, good := w.lockName(sel.X)
	if !good {
		return
	}
	return n, sel.Sel.Name, true
}

func terminates(list []ast.Stmt) bool {
	if len(list) == 0 {
		return false
	}
	switch s := list[len(list)-1].(type) {
	case *ast.ReturnStmt:
		return true
	case *ast.BranchStmt:
		return s.Tok == token.BREAK || s.Tok == token.CONTINUE || s.Tok == token.GOTO
	case *ast.ExprStmt:
		if c, ok := s.X.(*ast.CallExpr); ok {
			if id, ok := c.Fun.(*ast.Ident); ok && id.Name == "panic" {
				return true
			}
		}
	}
	return false
}

func (w *walker) block(list []ast.Stmt, ls lockset) lockset {
	for _, s := range list {
		ls = w.stmt(s, ls)
	}
	return ls
}

// nested block: what holds afterwards is what holds on every path that falls through
func (w *walker) nested(list []ast.Stmt, ls lockset) (lockset, bool) {
	out := w.block(list, ls.copy())
	return out, terminates(list)
}

func (w *walker) stmt(s ast.Stmt, ls lockset) lockset {
	switch x := s.(type) {
	case nil:
		return ls
	case *ast.ExprStmt:
		if c, ok := x.X.(*ast.CallExpr); ok {
			if name, op, ok := w.lockCall(c); ok {
				switch op {
				case "Lock", "RLock":
					for h := range ls {
						if h != name {
							w.f.acqEdges = append(w.f.acqEdges, edgeRec{h, name, w.f.key, w.pos(c.Pos())})
						}
					}
					if w.f.acquires == nil {
						w.f.acquires = map[string]token.Pos{}
					}
					w.f.acquires[name] = c.Pos()
					ls = ls.copy()
					if op == "Lock" {
						ls[name] = modeW
					} else if ls[name] < modeR {
						ls[name] = modeR
					}
				default:
					ls = ls.copy()
					delete(ls, name)
				}
				return ls
			}
		}
		w.expr(x.X, ls, false)
	case *ast.DeferStmt:
		if _, op, ok := w.lockCall(x.Call); ok && (op == "Unlock" || op == "RUnlock") {
			return ls // released at function exit: held for the rest of the body
		}
		w.call(x.Call, ls, true)
	case *ast.GoStmt:
		w.call(x.Call, ls, true)
	case *ast.AssignStmt:
		for _, r := range x.Rhs {
			w.expr(r, ls, false)
		}
		for _, l := range x.Lhs {
			w.expr(l, ls, x.Tok != token.DEFINE)
		}
	case *ast.IncDecStmt:
		w.expr(x.X, ls, true)
	case *ast.ReturnStmt:
		for _, r := range x.Results {
			w.expr(r, ls, false)
		}
	case *ast.SendStmt:
		w.expr(x.Chan, ls, false)
		w.expr(x.Value, ls, false)
	case *ast.DeclStmt:
		if g, ok := x.Decl.(*ast.GenDecl); ok {
			for _, sp := range g.Specs {
				if v, ok := sp.(*ast.ValueSpec); ok {
					for _, e := range v.Values {
						w.expr(e, ls, false)
					}
				}
			}
		}
	case *ast.BlockStmt:
		return w.block(x.List, ls)
	case *ast.LabeledStmt:
		return w.stmt(x.Stmt, ls)
	case *ast.IfStmt:
		ls = w.stmt(x.Init, ls)
		w.expr(x.Cond, ls, false)
		a, ta := w.nested(x.Body.List, ls)
		res := ls
		if !ta {
			res = meet(res, a)
		}
		if x.Else != nil {
			var b lockset
			var tb bool
			if eb, ok := x.Else.(*ast.BlockStmt); ok {
				b, tb = w.nested(eb.List, ls)
			} else {
				b, tb = w.stmt(x.Else, ls.copy()), false
			}
			switch {
			case ta && tb:
				res = ls
			case ta:
				res = b
			case tb:
				res = a
			default:
				res = meet(a, b)
			}
		}
		return res
	case *ast.ForStmt:
		ls = w.stmt(x.Init, ls)
		if x.Cond != nil {
			w.expr(x.Cond, ls, false)
		}
		out, _ := w.nested(x.Body.List, ls)
		w.stmt(x.Post, ls)
		return meet(ls, out)
	case *ast.RangeStmt:
		w.expr(x.X, ls, false)
		out, _ := w.nested(x.Body.List, ls)
		return meet(ls, out)
	case *ast.SwitchStmt:
		ls = w.stmt(x.Init, ls)
		if x.Tag != nil {
			w.expr(x.Tag, ls, false)
		}
		return w.clauses(x.Body, ls)
	case *ast.TypeSwitchStmt:
		ls = w.stmt(x.Init, ls)
		w.stmt(x.Assign, ls)
		return w.clauses(x.Body, ls)
	case *ast.SelectStmt:
		return w.clauses(x.Body, ls)
	}
	return ls
}

func (w *walker) clauses(body *ast.BlockStmt, ls lockset) lockset {
	res := ls
	for _, c := range body.List {
		switch cc := c.(type) {
		case *ast.CaseClause:
			for _, e := range cc.List {
				w.expr(e, ls, false)
			}
			out, t := w.nested(cc.Body, ls)
			if !t {
				res = meet(res, out)
			}
		case *ast.CommClause:
			w.stmt(cc.Comm, ls.copy())
			out, t := w.nested(cc.Body, ls)
			if !t {
				res = meet(res, out)
			}
		}
	}
	return res
}

func (w *walker) record(owner, field string, write bool, ls lockset, p token.Pos) {
	w.f.accesses = append(w.f.accesses, accessRec{Func: w.f.key, Owner: owner, Field: field, Write: write, Locks: join(ls, w.f.entry).list(), Pos: w.pos(p)})
}

// selector chain x.f1.f2...fk (fields only); returns the steps innermost first
type step struct {
	sel  *ast.SelectorExpr
	recv types.Type // type of the expression the field is selected on
	fld  *types.Var
}

func (w *walker) chain(e ast.Expr) (base ast.Expr, steps []step) {
	for {
		switch x := e.(type) {
		case *ast.ParenExpr:
			e = x.X
			continue
		case *ast.SelectorExpr:
			sel := w.in.Selections[x]
			if sel == nil || sel.Kind() != types.FieldVal {
				return e, steps
			}
			v, _ := sel.Obj().(*types.Var)
			steps = append([]step{{x, sel.Recv(), v}}, steps...)
			e = x.X
			continue
		}
		return e, steps
	}
}

// an access path ending in a field: record pointer loads along the way and the final access
func (w *walker) path(e ast.Expr, ls lockset, write bool) {
	base, steps := w.chain(e)
	w.expr(base, ls, false)
	owner, field := "", ""
	var pos token.Pos
	for i, st := range steps {
		if name, ok := sharedOwner(st.recv); ok {
			owner, field, pos = name, st.fld.Name(), st.sel.Sel.Pos()
		} else if owner == "" {
			// plain data that belongs to nobody we track
		}
		ft := st.fld.Type()
		last := i == len(steps)-1
		if isAtomicCell(ft) {
			return // the rest goes through the cell's own methods
		}
		if !last && isPointerLike(ft) {
			if owner != "" {
				w.record(owner, field, false, ls, pos) // pointer load
			}
			owner, field = "", ""
		}
		if last && owner != "" {
			if _, shared := sharedOwner(ft); shared && !isPointerLike(ft) {
				return // a by-value shared object: reached through its own methods
			}
			w.record(owner, field, write, ls, pos)
		}
	}
}

func (w *walker) expr(e ast.Expr, ls lockset, write bool) {
	switch x := e.(type) {
	case nil:
		return
	case *ast.ParenExpr:
		w.expr(x.X, ls, write)
	case *ast.SelectorExpr:
		sel := w.in.Selections[x]
		if sel != nil && sel.Kind() == types.FieldVal {
			w.path(x, ls, write)
			return
		}
		w.expr(x.X, ls, false) // method value or package-qualified identifier
	case *ast.IndexExpr:
		w.expr(x.Index, ls, false)
		// element of a slice/map field: an access to the field itself (map write = write)
		if tv, ok := w.in.Types[x.X]; ok {
			if _, isMap := tv.Type.Underlying().(*types.Map); isMap {
				w.expr(x.X, ls, write)
				return
			}
		}
		w.expr(x.X, ls, false)
	case *ast.StarExpr:
		w.expr(x.X, ls, false)
	case *ast.UnaryExpr:
		if x.Op == token.AND {
			// address taken: the receiver of a pointer method on a by-value field, or an escape
			if _, steps := w.chain(x.X); len(steps) > 0 {
				ft := steps[len(steps)-1].fld.Type()
				if _, shared := sharedOwner(ft); shared || isAtomicCell(ft) {
					w.path(x.X, ls, false)
					return
				}
				w.path(x.X, ls, true)
				return
			}
		}
		w.expr(x.X, ls, false)
	case *ast.BinaryExpr:
		w.expr(x.X, ls, false)
		w.expr(x.Y, ls, false)
	case *ast.CallExpr:
		w.call(x, ls, false)
	case *ast.FuncLit:
		sub := &walker{a: w.a, f: w.f, in: w.in}
		saved := w.f.entry
		w.f.entry = lockset{}
		sub.block(x.Body.List, lockset{}) // may run later, on another goroutine, with nothing held
		w.f.entry = saved
	case *ast.CompositeLit:
		for _, el := range x.Elts {
			if kv, ok := el.(*ast.KeyValueExpr); ok {
				w.expr(kv.Value, ls, false)
			} else {
				w.expr(el, ls, false)
			}
		}
	case *ast.TypeAssertExpr:
		w.expr(x.X, ls, false)
	case *ast.SliceExpr:
		w.expr(x.X, ls, false)
		w.expr(x.Low, ls, false)
		w.expr(x.High, ls, false)
		w.expr(x.Max, ls, false)
	case *ast.KeyValueExpr:
		w.expr(x.Value, ls, false)
	}
}

// implementing types of an interface method call, by go/types
func (w *walker) resolveCall(c *ast.CallExpr) []string {
	switch fn := c.Fun.(type) {
	case *ast.Ident:
		if obj, ok := w.in.Uses[fn].(*types.Func); ok && inScopePkg(obj.Pkg()) {
			return []string{w.a.keyOfFunc(obj)}
		}
	case *ast.SelectorExpr:
		sel := w.in.Selections[fn]
		if sel == nil {
			if obj, ok := w.in.Uses[fn.Sel].(*types.Func); ok && inScopePkg(obj.Pkg()) {
				return []string{w.a.keyOfFunc(obj)}
			}
			return nil
		}
		if sel.Kind() != types.MethodVal {
			return nil
		}
		obj := sel.Obj().(*types.Func)
		recv := sel.Recv()
		if iface, ok := recv.Underlying().(*types.Interface); ok {
			// every type in scope that implements the interface (and, when the value came out of a
			// type assertion on another interface value, that one too)
			var extra *types.Interface
			if id, ok := fn.X.(*ast.Ident); ok {
				if v, ok := w.in.Uses[id].(*types.Var); ok {
					extra = w.a.assertedFrom[v]
				}
			}
			var out []string
			if os.Getenv("ACCESS_DEBUG") == "2" {
				fmt.Fprintln(os.Stderr, "IFACE", src(fn), iface, "extra:", extra, len(w.a.named))
			}
			for _, n := range w.a.named {
				for _, t := range []types.Type{n, types.NewPointer(n)} {
					if types.Implements(t, iface) && (extra == nil || types.Implements(t, extra)) {
						if m, _, _ := types.LookupFieldOrMethod(t, true, n.Obj().Pkg(), obj.Name()); m != nil {
							if mf, ok := m.(*types.Func); ok && inScopePkg(mf.Pkg()) {
								out = append(out, w.a.keyOfFunc(mf))
							}
						}
						break
					}
				}
			}
			return out
		}
		if inScopePkg(obj.Pkg()) {
			return []string{w.a.keyOfFunc(obj)}
		}
	}
	return nil
}

func (a *analysis) keyOfFunc(f *types.Func) string {
	short := "circuit"
	if f.Pkg().Path() != modPath {
		short = strings.TrimPrefix(f.Pkg().Path(), modPath+"/")
	}
	sig := f.Type().(*types.Signature)
	if r := sig.Recv(); r != nil {
		t := r.Type()
		if p, ok := t.(*types.Pointer); ok {
			t = p.Elem()
		}
		if n, ok := t.(*types.Named); ok {
			return short + "." + n.Obj().Name() + "." + f.Name()
		}
	}
	return short + "." + f.Name()
}

func (w *walker) call(c *ast.CallExpr, ls lockset, deferred bool) {
	if fl, ok := c.Fun.(*ast.FuncLit); ok {
		w.expr(fl, ls, false)
	} else {
		w.expr(c.Fun, ls, false)
	}
	for _, arg := range c.Args {
		w.expr(arg, ls, false)
		// a function literal handed to a callee while locks are held may be run by that callee before it returns
		// (a substitute AfterFunc that fires zero delays inline, a collector that calls back): for the lock ORDER its
		// acquisitions count as made under the caller's locks
		if fl, ok := arg.(*ast.FuncLit); ok && !deferred {
			held := join(ls, w.f.entry)
			if len(held) > 0 {
				ast.Inspect(fl.Body, func(n ast.Node) bool {
					if ce, ok := n.(*ast.CallExpr); ok {
						if name, op, ok := w.lockCall(ce); ok && (op == "Lock" || op == "RLock") {
							for h := range held {
								w.f.litEdges = append(w.f.litEdges, edgeRec{h, name, w.f.key + " (function literal argument)", w.pos(ce.Pos())})
							}
						}
					}
					return true
				})
			}
		}
	}
	if sel, ok := c.Fun.(*ast.SelectorExpr); ok && sel.Sel.Name == "Do" && len(c.Args) == 1 {
		if tv, ok := w.in.Types[sel.X]; ok && isNamed(tv.Type, "sync", "Once") {
			if ms, ok := c.Args[0].(*ast.SelectorExpr); ok {
				if s2 := w.in.Selections[ms]; s2 != nil && s2.Kind() == types.MethodVal {
					onceFuncs[w.a.keyOfFunc(s2.Obj().(*types.Func))] = true
				}
			}
		}
	}
	held := join(ls, w.f.entry)
	if os.Getenv("ACCESS_DEBUG") != "" {
		fmt.Fprintln(os.Stderr, "CALL", w.f.key, src(c.Fun), w.resolveCall(c), held.list())
	}
	if deferred {
		held = lockset{} // runs later (go) or at exit (defer): claim nothing
	}
	if callees := w.resolveCall(c); len(callees) > 0 {
		w.f.calls = append(w.f.calls, callSite{callees, held, c.Pos()})
	}
}

// functions that only run inside sync.Once.Do(f): published by the Once
var onceFuncs = map[string]bool{}

var initName = func(key string) bool {
	parts := strings.Split(key, ".")
	name := parts[len(parts)-1]
	return strings.Contains(name, "NotThreadSafe") || strings.HasPrefix(name, "New") || name == "UnmarshalJSON" || name == "init" || name == "Store" || onceFuncs[key]
}

func (a *analysis) run() {
	a.assertedFrom = map[*types.Var]*types.Interface{}
	// named struct types in scope (for interface resolution)
	for _, p := range a.pkgs {
		if !inScopePkg(p.tpkg) {
			continue
		}
		sc := p.tpkg.Scope()
		for _, nm := range sc.Names() {
			if tn, ok := sc.Lookup(nm).(*types.TypeName); ok {
				if n, ok := tn.Type().(*types.Named); ok {
					a.named = append(a.named, n)
				}
			}
		}
		// variables bound by `v, ok := x.(I)`: remember x's interface type
		for _, f := range p.files {
			ast.Inspect(f, func(nd ast.Node) bool {
				as, ok := nd.(*ast.AssignStmt)
				if !ok || len(as.Rhs) != 1 || len(as.Lhs) == 0 {
					return true
				}
				ta, ok := as.Rhs[0].(*ast.TypeAssertExpr)
				if !ok {
					return true
				}
				id, ok := as.Lhs[0].(*ast.Ident)
				if !ok {
					return true
				}
				v, _ := p.info.Defs[id].(*types.Var)
				if v == nil {
					return true
				}
				if tv, ok := p.info.Types[ta.X]; ok {
					if it, ok := tv.Type.Underlying().(*types.Interface); ok {
						a.assertedFrom[v] = it
					}
				}
				return true
			})
		}
	}
	sort.Slice(a.named, func(i, j int) bool { return typeName(a.named[i]) < typeName(a.named[j]) })
	for _, p := range a.pkgs {
		if !inScopePkg(p.tpkg) {
			continue
		}
		for _, f := range p.files {
			for _, d := range f.Decls {
				fd, ok := d.(*ast.FuncDecl)
				if !ok || fd.Body == nil {
					continue
				}
				if fd.Recv != nil && len(fd.Recv.List) == 1 {
					if tv, ok := p.info.Types[fd.Recv.List[0].Type]; ok && isAtomicCell(tv.Type) {
						continue // the atomic cells' own methods
					}
				}
				key := a.funcKey(p, fd)
				a.funcs[key] = &funcInfo{key: key, decl: fd, pkg: p, exported: fd.Name.IsExported(), entry: lockset{}}
				a.order = append(a.order, key)
			}
		}
	}
	sort.Strings(a.order)
	for round := 0; round < 6; round++ {
		for _, k := range a.order {
			f := a.funcs[k]
			f.accesses, f.calls, f.acqEdges, f.acquires, f.litEdges = nil, nil, nil, nil, nil
			w := &walker{a: a, f: f, in: f.pkg.info}
			w.block(f.decl.Body.List, lockset{})
		}
		// entry locksets of unexported functions: what every call site in scope holds
		sites := map[string][]lockset{}
		callers := map[string][]string{}
		for _, k := range a.order {
			for _, cs := range a.funcs[k].calls {
				for _, callee := range cs.callees {
					sites[callee] = append(sites[callee], cs.held)
					callers[callee] = append(callers[callee], k)
				}
			}
		}
		changed := false
		for _, k := range a.order {
			f := a.funcs[k]
			var ne lockset
			if f.exported || len(sites[k]) == 0 {
				ne = lockset{}
			} else {
				ne = sites[k][0].copy()
				for _, s := range sites[k][1:] {
					ne = meet(ne, s)
				}
			}
			if fmt.Sprint(ne.list()) != fmt.Sprint(f.entry.list()) {
				f.entry = ne
				changed = true
			}
			ni := initName(k)
			if !ni && !f.exported && len(callers[k]) > 0 {
				ni = true
				for _, c := range callers[k] {
					if !a.funcs[c].init {
						ni = false
					}
				}
			}
			if ni != f.init {
				f.init = ni
				changed = true
			}
		}
		if !changed && round > 0 {
			break
		}
	}
}

// locks a function may acquire, directly or through calls
func (a *analysis) transAcquires() map[string]map[string]bool {
	acq := map[string]map[string]bool{}
	for _, k := range a.order {
		acq[k] = map[string]bool{}
		for l := range a.funcs[k].acquires {
			acq[k][l] = true
		}
	}
	for changed := true; changed; {
		changed = false
		for _, k := range a.order {
			for _, cs := range a.funcs[k].calls {
				for _, callee := range cs.callees {
					for l := range acq[callee] {
						if !acq[k][l] {
							acq[k][l] = true
							changed = true
						}
					}
				}
			}
		}
	}
	return acq
}

func coqStr(s string) string { return "\"" + strings.ReplaceAll(s, "\"", "") + "\"" }

func emitAccess(repo, out, table string) {
	a := loadAll(repo)
	a.run()
	var accs []accessRec
	var edges []edgeRec
	acq := a.transAcquires()
	for _, k := range a.order {
		f := a.funcs[k]
		for _, ac := range f.accesses {
			ac.Init = f.init
			accs = append(accs, ac)
		}
		edges = append(edges, f.acqEdges...)
		edges = append(edges, f.litEdges...)
		for _, cs := range f.calls {
			for _, callee := range cs.callees {
				for l := range acq[callee] {
					for h := range cs.held {
						edges = append(edges, edgeRec{h, l, k + " -> " + callee, fmt.Sprint(fset.Position(cs.pos).Line)})
					}
				}
			}
		}
	}
	// distinct edges
	seen := map[string]bool{}
	var dedges []edgeRec
	for _, e := range edges {
		key := e.From + ">" + e.To
		if !seen[key] {
			seen[key] = true
			dedges = append(dedges, e)
		}
	}
	sort.Slice(dedges, func(i, j int) bool { return dedges[i].From+dedges[i].To < dedges[j].From+dedges[j].To })
	var b strings.Builder
	b.WriteString("(* GENERATED by harness/cmd/translate access from the working tree -- do not edit, never committed. *)\n")
	b.WriteString("From Coq Require Import String List.\nFrom CV Require Import Conc.Lockset.\nImport ListNotations.\nOpen Scope string_scope.\n\n")
	b.WriteString("Definition accesses : list access := [\n")
	for i, ac := range accs {
		var ls []string
		for _, l := range ac.Locks {
			m := "Shared"
			if l.Excl {
				m = "Excl"
			}
			ls = append(ls, fmt.Sprintf("(%s, %s)", coqStr(l.Lock), m))
		}
		sep := ";"
		if i == len(accs)-1 {
			sep = ""
		}
		fmt.Fprintf(&b, "  mk_access %s %s %s %v [%s] %v%s\n", coqStr(ac.Func), coqStr(ac.Owner+"."+ac.Field), coqStr(ac.Pos), ac.Write, strings.Join(ls, "; "), ac.Init, sep)
	}
	b.WriteString("].\n\nDefinition lock_edges : list (string * string) := [\n")
	for i, e := range dedges {
		sep := ";"
		if i == len(dedges)-1 {
			sep = ""
		}
		fmt.Fprintf(&b, "  (%s, %s)%s\n", coqStr(e.From), coqStr(e.To), sep)
	}
	b.WriteString("].\n")
	if out != "" {
		if err := os.WriteFile(out, []byte(b.String()), 0o644); err != nil {
			fmt.Fprintln(os.Stderr, err)
			os.Exit(1)
		}
	}
	if table != "" {
		nfun := 0
		for _, k := range a.order {
			if len(a.funcs[k].accesses) > 0 {
				nfun++
			}
		}
		j, _ := json.MarshalIndent(map[string]interface{}{"accesses": accs, "edges": dedges, "functions": len(a.order), "functions_with_accesses": nfun}, "", " ")
		_ = os.WriteFile(table, j, 0o644)
	}
	fmt.Printf("access table: %d functions, %d plain-field accesses, %d lock-order edges\n", len(a.order), len(accs), len(dedges))
}
