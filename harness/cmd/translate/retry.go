// Mode "retry" (property C14): the control skeleton of every lock-free retry
// function of faststats -- a function that calls CompareAndSwap or calls
// itself -- read off /repo's working tree.  The level-2 thread programs
// (DESIGN.md Appendix B, coq/Conc/CounterConc.v) were read from these
// functions by hand and their retry is unbounded; the traces of a bounded
// scheduler cannot tell an unbounded retry from one that gives up after
// thousands of lost races, so the shape of the loop is compared instead:
// branching, loops, returns, calls and atomic operations in order, with plain
// assignments (arithmetic on locals) left out.  The check compares the table
// with coq/Conc/retry_skeleton.json; a difference is a broken correspondence.
package main

import (
	"bytes"
	"encoding/json"
	"fmt"
	"go/ast"
	"go/printer"
	"os"
	"sort"
	"strings"
)

type retryFunc struct {
	Func      string   `json:"func"`
	CasSites  int      `json:"cas_sites"`
	SelfCalls int      `json:"self_calls"`
	Skeleton  []string `json:"skeleton"`
}

func exprText(e ast.Node) string {
	var b bytes.Buffer
	_ = printer.Fprint(&b, fset, e)
	return strings.Join(strings.Fields(b.String()), " ")
}

func hasCall(n ast.Node) bool {
	found := false
	ast.Inspect(n, func(x ast.Node) bool {
		if c, ok := x.(*ast.CallExpr); ok {
			// conversions such as int(x), int64(x) are not calls that matter here
			if id, ok := c.Fun.(*ast.Ident); ok {
				switch id.Name {
				case "int", "int64", "int32", "uint64", "uint32", "float64", "len", "cap":
					return true
				}
			}
			found = true
		}
		return !found
	})
	return found
}

type retryWalker struct {
	fd   *ast.FuncDecl
	recv string
	out  []string
	cas  int
	self int
}

func (w *retryWalker) count(n ast.Node) {
	ast.Inspect(n, func(x ast.Node) bool {
		c, ok := x.(*ast.CallExpr)
		if !ok {
			return true
		}
		switch f := c.Fun.(type) {
		case *ast.SelectorExpr:
			if f.Sel.Name == "CompareAndSwap" || strings.HasPrefix(f.Sel.Name, "CompareAndSwap") {
				w.cas++
			}
			if id, ok := f.X.(*ast.Ident); ok && id.Name == w.recv && f.Sel.Name == w.fd.Name.Name {
				w.self++
			}
		case *ast.Ident:
			if w.fd.Recv == nil && f.Name == w.fd.Name.Name {
				w.self++
			}
		}
		return true
	})
}

func (w *retryWalker) emit(depth int, s string) {
	w.out = append(w.out, strings.Repeat("  ", depth)+s)
}

func (w *retryWalker) stmts(depth int, list []ast.Stmt) {
	for _, s := range list {
		w.stmt(depth, s)
	}
}

func (w *retryWalker) stmt(depth int, s ast.Stmt) {
	switch s := s.(type) {
	case *ast.BlockStmt:
		w.stmts(depth, s.List)
	case *ast.IfStmt:
		if s.Init != nil {
			w.stmt(depth, s.Init)
		}
		w.emit(depth, "if "+exprText(s.Cond))
		w.stmts(depth+1, s.Body.List)
		if s.Else != nil {
			w.emit(depth, "else")
			w.stmt(depth+1, s.Else)
		}
	case *ast.ForStmt:
		h := "for"
		if s.Init != nil {
			h += " init " + exprText(s.Init) + ";"
		}
		if s.Cond != nil {
			h += " while " + exprText(s.Cond) + ";"
		}
		if s.Post != nil {
			h += " post " + exprText(s.Post)
		}
		w.emit(depth, h)
		w.stmts(depth+1, s.Body.List)
	case *ast.RangeStmt:
		w.emit(depth, "range "+exprText(s.X))
		w.stmts(depth+1, s.Body.List)
	case *ast.ReturnStmt:
		w.emit(depth, exprText(s))
	case *ast.BranchStmt:
		w.emit(depth, exprText(s))
	case *ast.AssignStmt, *ast.IncDecStmt, *ast.DeclStmt:
		if hasCall(s) {
			w.emit(depth, exprText(s))
		}
	case *ast.ExprStmt:
		w.emit(depth, exprText(s))
	case *ast.EmptyStmt:
	default:
		// switch, select, go, defer, labelled statements: kept verbatim
		w.emit(depth, exprText(s))
	}
}

func emitRetry(repo, table string) {
	_, files, _ := parseDir(repo, "faststats")
	var res []retryFunc
	for _, f := range files {
		for _, d := range f.Decls {
			fd, ok := d.(*ast.FuncDecl)
			if !ok || fd.Body == nil {
				continue
			}
			w := &retryWalker{fd: fd}
			name := fd.Name.Name
			if fd.Recv != nil && len(fd.Recv.List) == 1 {
				if len(fd.Recv.List[0].Names) == 1 {
					w.recv = fd.Recv.List[0].Names[0].Name
				}
				name = strings.TrimPrefix(exprText(fd.Recv.List[0].Type), "*") + "." + name
			}
			w.count(fd.Body)
			if w.cas == 0 && w.self == 0 {
				continue
			}
			w.stmts(0, fd.Body.List)
			res = append(res, retryFunc{Func: name, CasSites: w.cas, SelfCalls: w.self, Skeleton: w.out})
		}
	}
	sort.Slice(res, func(i, j int) bool { return res[i].Func < res[j].Func })
	b, _ := json.MarshalIndent(map[string]interface{}{"package": "faststats", "functions": res}, "", " ")
	if table == "" {
		fmt.Println(string(b))
		return
	}
	if err := os.WriteFile(table, append(b, '\n'), 0o644); err != nil {
		fmt.Fprintln(os.Stderr, err)
		os.Exit(2)
	}
	fmt.Printf("retry skeletons: %d functions\n", len(res))
}
