package main

// Families "rp" (faststats.RollingPercentile ring, sequential) and "pct"
// (SortedDurations summaries incl. the binary64 Percentile and the expvar
// labels) — property C15.

import (
	"encoding/json"
	"fmt"
	"io"
	"math"
	"math/big"
	"math/rand"
	"sort"
	"time"

	"github.com/cep21/circuit/v4/faststats"

	"verifharness/internal/hc"
)

type rpParams struct {
	N     int   `json:"n"`
	W     int64 `json:"w"`
	Cap   int   `json:"cap"`
	Start hc.TS `json:"start"`
}

type rpOp struct {
	K string `json:"k"` // add snap reset
	D int64  `json:"d,omitempty"`
	T hc.TS  `json:"t"`
}

type rpFamily struct{}

func init() { families["rp"] = rpFamily{} }

func rpCase(p rpParams, ops []rpOp) *hc.Case {
	c := &hc.Case{Params: hc.Raw(p)}
	for _, o := range ops {
		c.Ops = append(c.Ops, hc.Raw(o))
	}
	return c
}

func (p rpParams) at(d int64) hc.TS { return hc.TS{S: p.Start.S, N: p.Start.N + d} }

func (rpFamily) Corpus(string) []*hc.Case {
	p := rpParams{N: 3, W: int64(time.Second), Cap: 2}
	s := int64(time.Second)
	return []*hc.Case{
		// D5: a stamp before the start must be ignored, not index the slice with -1
		rpCase(p, []rpOp{{"add", 5, p.at(-1)}, {"add", 7, p.at(0)}, {"snap", 0, p.at(0)}}),
		// D4 in the percentile ring: older than the window but after the start
		rpCase(p, []rpOp{{"add", 1, p.at(10 * s)}, {"add", 2, p.at(2 * s)}, {"snap", 0, p.at(10 * s)}}),
		// bucket overflow keeps the most recent Cap values; roll-over clears
		rpCase(p, []rpOp{{"add", 1, p.at(0)}, {"add", 2, p.at(0)}, {"add", 3, p.at(0)}, {"snap", 0, p.at(0)}, {"add", 9, p.at(s)}, {"snap", 0, p.at(2 * s)}, {"snap", 0, p.at(3 * s)}, {"reset", 0, p.at(3 * s)}, {"snap", 0, p.at(3 * s)}}),
	}
}

func (rpFamily) Gen(r *rand.Rand, i int, tier string) *hc.Case {
	p := rpParams{N: hc.Pick(r, 1, 2, 3, 3, 4, 6), W: hc.Pick(r, int64(1), 7, 1000, int64(time.Second), int64(time.Minute)),
		Cap: hc.Pick(r, 1, 1, 2, 3, 5, 100), Start: hc.TS{S: int64(r.Intn(100)), N: int64(r.Intn(1000))}}
	n := 6 + r.Intn(30)
	var ops []rpOp
	latest := int64(0)
	far := false
	for len(ops) < n {
		if !far && r.Intn(12) == 0 {
			// a SNAPSHOT moves the window too: (optionally empty it,) snapshot some buckets ahead, then add and
			// snapshot at stamps the move has made stale, before anything newer is presented
			nb := int64(p.N)
			at := func(idx int64) hc.TS {
				if idx < 0 {
					idx = 0
				}
				return p.at(idx*p.W + hc.Pick(r, int64(0), p.W-1, r.Int63n(p.W)))
			}
			if r.Intn(2) == 0 {
				ops = append(ops, rpOp{"reset", 0, at(latest)})
			}
			latest += hc.Pick(r, int64(2), nb, nb+1, nb+3, 5*nb)
			ops = append(ops, rpOp{"snap", 0, at(latest)})
			for k := 1 + r.Intn(3); k > 0; k-- {
				ops = append(ops, rpOp{"add", int64(1 + r.Intn(90)), at(latest - nb - hc.Pick(r, int64(-1), 0, 0, 1, 2))})
			}
			ops = append(ops, rpOp{"snap", 0, at(latest - hc.Pick(r, int64(1), 2, 2, nb, nb+1))})
			continue
		}
		t := rcStamp(r, rcParams{N: p.N, W: p.W, Start: p.Start}, &latest, &far, len(ops) > n*2/3)
		switch x := r.Intn(100); {
		case x < 65:
			d := hc.Pick(r, int64(0), 1, 5, int64(r.Intn(1000)), int64(time.Millisecond)*int64(r.Intn(500)), -3)
			ops = append(ops, rpOp{"add", d, t})
			for k := r.Intn(p.Cap + 2); k > 0 && r.Intn(2) == 0; k-- {
				ops = append(ops, rpOp{"add", int64(r.Intn(50)), t})
			}
		case x < 92:
			ops = append(ops, rpOp{"snap", 0, t})
		default:
			ops = append(ops, rpOp{"reset", 0, t})
		}
	}
	end := p.at(latest * p.W)
	if far {
		end = hc.TS{S: 400 * 365 * 86400}
	}
	ops = append(ops, rpOp{"snap", 0, end})
	return rpCase(p, ops)
}

// longBucketProbe: "keeping per bucket the most recent BucketSize values" however many the bucket has seen -- here
// 2^24 + 10 of them in one bucket of a capacity that is not a power of two.
func longBucketProbe(c *hc.Case) {
	start := hc.T0
	for _, capy := range []int{3, 100} {
		rpv := faststats.NewRollingPercentile(time.Second, 2, capy, start)
		total := 1<<24 + 10
		for k := 1; k <= total; k++ {
			rpv.AddDuration(time.Duration(k), start)
		}
		got := rpv.SnapshotAt(start)
		ok := len(got) == capy
		for k := 0; ok && k < capy; k++ {
			ok = got[k] == time.Duration(total-capy+1+k)
		}
		if !ok {
			show := got
			if len(show) > 6 {
				show = show[len(show)-6:]
			}
			c.Viol = append(c.Viol, hc.Violation{Clause: "SnapshotAt returns in ascending order exactly the durations added to buckets inside the current window, keeping per bucket the most recent BucketSize values", Detail: fmt.Sprintf("capacity %d, durations 1..%d added to one bucket: snapshot has %d values ending %v, want the last %d added", capy, total, len(got), show, capy), AtOp: len(c.Ops)})
		}
	}
}

func (rpFamily) Exec(c *hc.Case) {
	var p rpParams
	must(json.Unmarshal(c.Params, &p))
	if c.ID == 0 {
		defer longBucketProbe(c)
	}
	rpv := faststats.NewRollingPercentile(time.Duration(p.W), p.N, p.Cap, hc.TimeOf(p.Start))
	tags := map[string]bool{}
	// oracle from the property's statement
	perBucket := map[string][]int64{}
	latest := big.NewInt(0)
	bucketOf := func(ts hc.TS) (*big.Int, bool) {
		d := new(big.Int).SetInt64(ts.S - p.Start.S)
		d.Mul(d, big.NewInt(1000000000))
		d.Add(d, big.NewInt(ts.N-p.Start.N))
		if maxd := big.NewInt(1<<63 - 1); d.Cmp(maxd) > 0 {
			d = maxd
		}
		if d.Sign() < 0 {
			tags["stamp:before_start"] = true
			return nil, false
		}
		return d.Div(d, big.NewInt(p.W)), true
	}
	present := func(ts hc.TS) (*big.Int, bool) {
		b, ok := bucketOf(ts)
		if ok && b.Cmp(latest) > 0 {
			latest = b
			tags["roll"] = true
		}
		return b, ok
	}
	inWin := func(b *big.Int) bool { return b.Cmp(new(big.Int).Sub(latest, big.NewInt(int64(p.N)))) > 0 }
	for i, raw := range c.Ops {
		var o rpOp
		must(json.Unmarshal(raw, &o))
		out := "PNone"
		func() {
			defer func() {
				if r := recover(); r != nil {
					out = "PPanic"
					c.Viol = append(c.Viol, hc.Violation{Clause: "no timestamp makes AddDuration or SnapshotAt panic", Detail: fmt.Sprintf("%s panicked: %v", o.K, r), AtOp: i})
				}
			}()
			switch o.K {
			case "add":
				rpv.AddDuration(time.Duration(o.D), hc.TimeOf(o.T))
				if b, ok := present(o.T); ok {
					if inWin(b) {
						perBucket[b.String()] = append(perBucket[b.String()], o.D)
						if len(perBucket[b.String()]) > p.Cap {
							tags["bucket:overflow"] = true
						}
					} else {
						tags["add:older_than_window"] = true
					}
				}
			case "snap":
				present(o.T)
				snap := rpv.SnapshotAt(hc.TimeOf(o.T))
				l := make([]int64, len(snap))
				for k, d := range snap {
					l[k] = int64(d)
				}
				out = "PList " + hc.ZList(l)
				var want []int64
				for k := 0; k < p.N; k++ {
					b := new(big.Int).Sub(latest, big.NewInt(int64(k)))
					ds := perBucket[b.String()]
					if len(ds) > p.Cap {
						ds = ds[len(ds)-p.Cap:]
					}
					want = append(want, ds...)
				}
				sort.Slice(want, func(a, b int) bool { return want[a] < want[b] })
				if fmt.Sprint(want) != fmt.Sprint(l) && !(len(want) == 0 && len(l) == 0) {
					c.Viol = append(c.Viol, hc.Violation{Clause: "SnapshotAt returns in ascending order exactly the durations added to buckets inside the current window, keeping per bucket the most recent BucketSize values", Detail: fmt.Sprintf("got %v want %v", l, want), AtOp: i})
				}
				if len(l) > 0 {
					tags["snap:nonempty"] = true
				}
			case "reset":
				present(o.T)
				rpv.Reset(hc.TimeOf(o.T))
				perBucket = map[string][]int64{}
				tags["op:reset"] = true
			}
		}()
		c.Outs = append(c.Outs, out)
	}
	for t := range tags {
		c.Tags = append(c.Tags, t)
	}
}

func (rpFamily) Emit(w io.Writer, f *hc.File) {
	fmt.Fprintln(w, "From CV Require Import Base.Prelude Seq.RollingCounter Seq.RollingPercentile Seq.CaseCheck.")
	fmt.Fprintln(w, "Definition cases : list rp_case := [")
	for i, c := range f.Cases {
		var p rpParams
		must(json.Unmarshal(c.Params, &p))
		var ops []string
		for _, raw := range c.Ops {
			var o rpOp
			must(json.Unmarshal(raw, &o))
			switch o.K {
			case "add":
				ops = append(ops, fmt.Sprintf("PAdd %s %s", hc.Zi(o.D), hc.ZOf(o.T)))
			case "snap":
				ops = append(ops, "PSnap "+hc.ZOf(o.T))
			case "reset":
				ops = append(ops, "PReset "+hc.ZOf(o.T))
			}
		}
		sep := ";"
		if i == len(f.Cases)-1 {
			sep = ""
		}
		fmt.Fprintf(w, " (%d%%nat, %d, %d, %s, %d, %s,\n   %s)%s\n", c.ID, p.N, p.W, hc.ZOf(p.Start), p.Cap, hc.List(ops), hc.List(c.Outs), sep)
	}
	fmt.Fprintln(w, "].")
	fmt.Fprintln(w, "Definition result := Eval vm_compute in rp_mismatches cases.")
	fmt.Fprintln(w, "Print result.")
}

// ---------------------------------------------------------------- pct
type pctParams struct {
	Sample []int64 `json:"sample"` // sorted ascending
}

type pctOp struct {
	K    string  `json:"k"` // pct var
	P    float64 `json:"p,omitempty"`
	Bits uint64  `json:"bits,omitempty"`
}

type pctFamily struct{}

func init() { families["pct"] = pctFamily{} }

func pctCase(s []int64, ps []float64) *hc.Case {
	sort.Slice(s, func(a, b int) bool { return s[a] < s[b] })
	c := &hc.Case{Params: hc.Raw(pctParams{Sample: s})}
	for _, p := range ps {
		c.Ops = append(c.Ops, hc.Raw(pctOp{K: "pct", P: p, Bits: math.Float64bits(p)}))
	}
	c.Ops = append(c.Ops, hc.Raw(pctOp{K: "var"}))
	return c
}

func (pctFamily) Corpus(string) []*hc.Case {
	var s []int64
	for i := int64(0); i <= 100; i++ {
		s = append(s, i*int64(time.Millisecond))
	}
	return []*hc.Case{
		// D6: the published summary must label pNN with Percentile(NN)
		pctCase(s, []float64{0, 25, 50, 75, 90, 95, 99, 99.5, 100, .25, .5, .9, .99}),
		pctCase([]int64{5}, []float64{0, 50, 100}),
		pctCase([]int64{}, []float64{0, 50, 100}),
		pctCase([]int64{1, 1 << 53}, []float64{50, 99.99999999999999, math.Nextafter(100, 0), math.Nextafter(0, 1)}),
	}
}

func (pctFamily) Gen(r *rand.Rand, i int, tier string) *hc.Case {
	n := hc.Pick(r, 2, 2, 3, 4, 5, 7, 10, 11, 33, 101)
	s := make([]int64, n)
	for k := range s {
		s[k] = hc.Pick(r, int64(r.Intn(10)), int64(r.Intn(1000)), int64(time.Millisecond)*int64(r.Intn(3000)), r.Int63n(1<<53), int64(time.Second)*int64(r.Intn(90)))
	}
	if r.Intn(5) == 0 {
		// durations beyond 2^53 ns that lie close together (float64 cannot tell neighbours apart there; their
		// DIFFERENCE is small and exact).  Kept below 2^56 so that the int64 sum of a hundred of them does not wrap.
		base := int64(1) << (54 + r.Intn(2))
		for k := range s {
			s[k] = base + int64(r.Intn(12))
		}
	}
	var ps []float64
	for k := 0; k < 14; k++ {
		var p float64
		switch r.Intn(7) {
		case 0:
			p = hc.Pick(r, 0.0, 25, 50, 75, 90, 95, 99, 99.5, 100)
		case 1:
			p = float64(r.Intn(10001)) / 100
		case 2: // grid points k/(n-1) and their float neighbours
			p = float64(r.Intn(n)) / float64(n-1) * 100
			switch r.Intn(3) {
			case 0:
				p = math.Nextafter(p, -1)
			case 1:
				p = math.Nextafter(p, 200)
			}
		case 3:
			p = r.Float64() * 100
		case 4:
			p = hc.Pick(r, -1.0, -0.0, 100.00000000000001, 1000, math.SmallestNonzeroFloat64, 1e-300)
		default:
			p = r.Float64() * 100
		}
		ps = append(ps, p)
	}
	return pctCase(s, ps)
}

func decodeFloat(p float64) (m, e int64) {
	if p == 0 {
		return 0, 0
	}
	fr, ex := math.Frexp(p) // p = fr * 2^ex, 0.5 <= |fr| < 1
	mm := int64(fr * (1 << 53))
	return mm, int64(ex) - 53
}

func (pctFamily) Exec(c *hc.Case) {
	var p pctParams
	must(json.Unmarshal(c.Params, &p))
	sd := make(faststats.SortedDurations, len(p.Sample))
	for i, v := range p.Sample {
		sd[i] = time.Duration(v)
	}
	tags := map[string]bool{}
	type pr struct {
		p float64
		v int64
	}
	var seen []pr
	for i, raw := range c.Ops {
		var o pctOp
		must(json.Unmarshal(raw, &o))
		func() {
			defer func() {
				if r := recover(); r != nil {
					c.Outs = append(c.Outs, "PANIC")
					c.Viol = append(c.Viol, hc.Violation{Clause: "Percentile stays between Min and Max", Detail: fmt.Sprintf("panic: %v", r), AtOp: i})
				}
			}()
			switch o.K {
			case "pct":
				pv := math.Float64frombits(o.Bits)
				v := int64(sd.Percentile(pv))
				m, e := decodeFloat(pv)
				c.Outs = append(c.Outs, fmt.Sprintf("(%s, %s, %s)", hc.Zi(m), hc.Zi(e), hc.Zi(v)))
				if len(sd) > 0 && pv >= 0 && pv <= 100 {
					seen = append(seen, pr{pv, v})
					if v < int64(sd.Min()) || v > int64(sd.Max()) {
						c.Viol = append(c.Viol, hc.Violation{Clause: "Percentile stays between Min and Max", Detail: fmt.Sprintf("Percentile(%v)=%d outside [%d,%d]", pv, v, sd.Min(), sd.Max()), AtOp: i})
					}
					if pv == 0 && v != int64(sd.Min()) || pv == 100 && v != int64(sd.Max()) {
						c.Viol = append(c.Viol, hc.Violation{Clause: "Percentile equals Min at 0 and Max at 100", Detail: fmt.Sprintf("Percentile(%v)=%d", pv, v), AtOp: i})
					}
				}
				if pv != math.Trunc(pv) {
					tags["p:fractional"] = true
				}
			case "var":
				raw := sd.Var().(interface{ Value() interface{} }).Value().(map[string]string)
				var items []string
				for _, k := range []struct {
					label string
					key   int
					want  func() time.Duration
				}{{"min", 0, sd.Min}, {"p25", 25, func() time.Duration { return sd.Percentile(25) }}, {"p50", 50, func() time.Duration { return sd.Percentile(50) }},
					{"p90", 90, func() time.Duration { return sd.Percentile(90) }}, {"p99", 99, func() time.Duration { return sd.Percentile(99) }},
					{"max", 100, sd.Max}, {"mean", 1000, sd.Mean}} {
					d, err := time.ParseDuration(raw[k.label])
					if err != nil {
						d = -12345
					}
					items = append(items, fmt.Sprintf("(%d%%nat, %s)", k.key, hc.Zi(int64(d))))
					if d != k.want() {
						c.Viol = append(c.Viol, hc.Violation{Clause: "the published summary labels each pNN with Percentile(NN)", Detail: fmt.Sprintf("%s published as %v, want %v", k.label, d, k.want()), AtOp: i})
					}
				}
				c.Outs = append(c.Outs, hc.List(items))
				if len(sd) > 0 {
					mean := int64(sd.Mean())
					if mean < int64(sd.Min()) || mean > int64(sd.Max()) {
						c.Viol = append(c.Viol, hc.Violation{Clause: "Mean lies between Min and Max", Detail: fmt.Sprintf("mean %d", mean), AtOp: i})
					}
				}
			}
		}()
	}
	sort.Slice(seen, func(a, b int) bool { return seen[a].p < seen[b].p })
	for k := 1; k < len(seen); k++ {
		if seen[k].v < seen[k-1].v {
			c.Viol = append(c.Viol, hc.Violation{Clause: "Percentile is non-decreasing in p on [0,100]", Detail: fmt.Sprintf("P(%v)=%d > P(%v)=%d", seen[k-1].p, seen[k-1].v, seen[k].p, seen[k].v), AtOp: 0})
			break
		}
	}
	c.Tags = append(c.Tags, fmt.Sprintf("len:%d", len(sd)))
	for t := range tags {
		c.Tags = append(c.Tags, t)
	}
}

func (pctFamily) Emit(w io.Writer, f *hc.File) {
	fmt.Fprintln(w, "From CV Require Import Base.Prelude Seq.RollingPercentile Seq.PercentileFloat.")
	var pc, vc []string
	for _, c := range f.Cases {
		var p pctParams
		must(json.Unmarshal(c.Params, &p))
		var qs []string
		varOut := "[]"
		for i, raw := range c.Ops {
			var o pctOp
			must(json.Unmarshal(raw, &o))
			if i >= len(c.Outs) || c.Outs[i] == "PANIC" {
				qs = append(qs, "(0, 0, (-99))")
				continue
			}
			if o.K == "pct" {
				qs = append(qs, c.Outs[i])
			} else {
				varOut = c.Outs[i]
			}
		}
		pc = append(pc, fmt.Sprintf(" (%d%%nat, %s,\n   %s)", c.ID, hc.ZList(p.Sample), hc.List(qs)))
		vc = append(vc, fmt.Sprintf(" (%d%%nat, %s,\n   %s)", c.ID, hc.ZList(p.Sample), varOut))
	}
	fmt.Fprintf(w, "Definition cases : list pct_case := [\n%s\n].\n", joinLines(pc))
	fmt.Fprintf(w, "Definition vcases : list var_case := [\n%s\n].\n", joinLines(vc))
	fmt.Fprintln(w, "Definition result := Eval vm_compute in (pct_mismatches cases, var_mismatches vcases).")
	fmt.Fprintln(w, "Print result.")
}

func joinLines(l []string) string {
	s := ""
	for i, x := range l {
		if i > 0 {
			s += ";\n"
		}
		s += x
	}
	return s
}
