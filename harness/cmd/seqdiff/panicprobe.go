package main

import (
	"context"
	"errors"
	"fmt"
	"os"
	"time"

	"github.com/cep21/circuit/v4"
	"github.com/cep21/circuit/v4/closers/simplelogic"
	"verifharness/internal/hc"
)

// panicProbe: C04's last clause says "once all calls have returned, by normal return or by panic": a call also
// returns by panic when code the USER supplied, other than the two functions, panics under it -- a metrics
// collector, the interrupt predicate, the clock, a nil context handed to the deadline.  One fresh circuit per panic
// point; the caller recovers; both gauges then read zero and, with a limit of one, the next call is admitted.
type panicAt struct{ kind string }

func (p panicAt) hit(k string) {
	if p.kind == k {
		panic("collector failed in " + k)
	}
}
func (p panicAt) Success(context.Context, time.Time, time.Duration)       { p.hit("Success") }
func (p panicAt) ErrFailure(context.Context, time.Time, time.Duration)    { p.hit("ErrFailure") }
func (p panicAt) ErrTimeout(context.Context, time.Time, time.Duration)    { p.hit("ErrTimeout") }
func (p panicAt) ErrBadRequest(context.Context, time.Time, time.Duration) { p.hit("ErrBadRequest") }
func (p panicAt) ErrInterrupt(context.Context, time.Time, time.Duration)  { p.hit("ErrInterrupt") }
func (p panicAt) ErrConcurrencyLimitReject(context.Context, time.Time) {
	p.hit("ErrConcurrencyLimitReject")
}
func (p panicAt) ErrShortCircuit(context.Context, time.Time) { p.hit("ErrShortCircuit") }

type panicAtFb struct{ kind string }

func (p panicAtFb) hit(k string) {
	if p.kind == k {
		panic("collector failed in " + k)
	}
}
func (p panicAtFb) Success(context.Context, time.Time, time.Duration) { p.hit("fallback Success") }
func (p panicAtFb) ErrFailure(context.Context, time.Time, time.Duration) {
	p.hit("fallback ErrFailure")
}
func (p panicAtFb) ErrConcurrencyLimitReject(context.Context, time.Time) {
	p.hit("fallback ErrConcurrencyLimitReject")
}

type panicAtCirc struct{ kind string }

func (p panicAtCirc) Opened(context.Context, time.Time) {
	if p.kind == "Opened" {
		panic("collector failed in Opened")
	}
}
func (p panicAtCirc) Closed(context.Context, time.Time) {}

func panicProbe(c *hc.Case, tags map[string]bool) {
	errRun := errors.New("run")
	bg := context.Background()
	ok := func(context.Context) error { return nil }
	fail := func(context.Context) error { return errRun }
	fbOK := func(context.Context, error) error { return nil }
	fbFail := func(context.Context, error) error { return errRun }
	type point struct {
		kind string
		cfg  func(*circuit.Config)
		call func(*circuit.Circuit)
	}
	points := []point{
		{"Success", nil, func(x *circuit.Circuit) { _ = x.Run(bg, ok) }},
		{"ErrFailure", nil, func(x *circuit.Circuit) { _ = x.Run(bg, fail) }},
		{"ErrBadRequest", nil, func(x *circuit.Circuit) {
			_ = x.Run(bg, func(context.Context) error { return circuit.SimpleBadRequest{Err: errRun} })
		}},
		{"ErrTimeout", func(g *circuit.Config) { g.Execution.Timeout = time.Millisecond }, func(x *circuit.Circuit) {
			_ = x.Run(bg, func(ctx context.Context) error { <-ctx.Done(); time.Sleep(time.Millisecond); return ctx.Err() })
		}},
		{"ErrInterrupt", nil, func(x *circuit.Circuit) {
			ctx, cancel := context.WithCancel(bg)
			defer cancel()
			_ = x.Run(ctx, func(context.Context) error { cancel(); return errRun })
		}},
		{"ErrConcurrencyLimitReject", nil, func(x *circuit.Circuit) {
			// limit 1 and one call in flight (0 would be replaced by the default)
			in, out := make(chan struct{}), make(chan struct{})
			holder := make(chan struct{})
			go func() {
				defer close(holder)
				_ = x.Run(bg, func(context.Context) error { close(in); <-out; return nil })
			}()
			<-in
			defer func() { close(out); <-holder }()
			_ = x.Run(bg, ok)
		}},
		{"fallback Success", nil, func(x *circuit.Circuit) { _ = x.Execute(bg, fail, fbOK) }},
		{"fallback ErrFailure", nil, func(x *circuit.Circuit) { _ = x.Execute(bg, fail, fbFail) }},
		{"fallback ErrConcurrencyLimitReject", func(g *circuit.Config) { g.Execution.MaxConcurrentRequests = 5 }, func(x *circuit.Circuit) {
			in, out := make(chan struct{}), make(chan struct{})
			holder := make(chan struct{})
			go func() {
				defer close(holder)
				_ = x.Execute(bg, fail, func(context.Context, error) error { close(in); <-out; return nil })
			}()
			<-in
			defer func() { close(out); <-holder }()
			_ = x.Execute(bg, fail, fbOK)
		}},
		{"IsErrInterrupt", func(g *circuit.Config) {
			g.Execution.IsErrInterrupt = func(error) bool { panic("predicate failed") }
		}, func(x *circuit.Circuit) {
			ctx, cancel := context.WithCancel(bg)
			defer cancel()
			_ = x.Run(ctx, func(context.Context) error { cancel(); return errRun })
		}},
		{"Opened", func(g *circuit.Config) {
			g.General.ClosedToOpenFactory = simplelogic.ConsecutiveErrOpenerFactory(simplelogic.ConfigConsecutiveErrOpener{ErrorThreshold: 1})
		}, func(x *circuit.Circuit) { _ = x.Run(bg, fail) }},
		{"nil context with a timeout", func(g *circuit.Config) { g.Execution.Timeout = time.Hour }, func(x *circuit.Circuit) {
			var none context.Context
			_ = x.Run(none, ok)
		}},
	}
	for _, pt := range points {
		var cfg circuit.Config
		cfg.Execution.MaxConcurrentRequests = 1
		cfg.Fallback.MaxConcurrentRequests = 1
		cfg.Execution.Timeout = -1
		if pt.cfg != nil {
			pt.cfg(&cfg)
		}
		cfg.Metrics.Run = []circuit.RunMetrics{panicAt{pt.kind}}
		cfg.Metrics.Fallback = []circuit.FallbackMetrics{panicAtFb{pt.kind}}
		cfg.Metrics.Circuit = []circuit.Metrics{panicAtCirc{pt.kind}}
		x := circuit.NewCircuitFromConfig("panic-probe", cfg)
		var pv interface{}
		done := make(chan struct{})
		go func() {
			defer close(done)
			defer func() { pv = recover() }()
			pt.call(x)
		}()
		select {
		case <-done:
		case <-time.After(10 * time.Second):
			c.Viol = append(c.Viol, hc.Violation{Clause: "C04: once all calls have returned, by normal return or by panic, ConcurrentCommands and ConcurrentFallbacks read zero", Detail: "the call with a panic in " + pt.kind + " had not returned after 10 s", AtOp: len(c.Ops)})
			continue
		}
		if pv == nil {
			continue // this point was not reached (or is guarded by the library): nothing returned by panic
		}
		tags["panic-under:"+pt.kind] = true
		if a, b := x.ConcurrentCommands(), x.ConcurrentFallbacks(); a != 0 || b != 0 {
			c.Viol = append(c.Viol, hc.Violation{Clause: "C04: once all calls have returned, by normal return or by panic, ConcurrentCommands and ConcurrentFallbacks read zero",
				Detail: fmt.Sprintf("after a call that returned by a panic raised in %s (recovered by its caller): ConcurrentCommands=%d ConcurrentFallbacks=%d on an idle circuit", pt.kind, a, b), AtOp: len(c.Ops)})
		}
	}
}

// nilPanicProbe: "every panic value (including nil-like ...)": with GODEBUG=panicnil=1 (the pre-1.21 behaviour a
// program may opt into) panic(nil) carries a nil value, and recover() returns nil for it -- code that re-raises
// only "if r != nil" swallows it.  The panic still reaches the caller: Execute does not return normally.
func nilPanicProbe(c *hc.Case, tags map[string]bool) {
	old, had := os.LookupEnv("GODEBUG")
	os.Setenv("GODEBUG", "panicnil=1")
	defer func() {
		if had {
			os.Setenv("GODEBUG", old)
		} else {
			os.Unsetenv("GODEBUG")
		}
	}()
	var cfg circuit.Config
	cfg.Execution.Timeout = -1
	x := circuit.NewCircuitFromConfig("nil-panic", cfg)
	for _, where := range []string{"run", "fallback"} {
		returned := false
		func() {
			defer func() { _ = recover() }()
			_ = x.Execute(context.Background(), func(context.Context) error {
				if where == "run" {
					panic(nil)
				}
				return errors.New("run")
			}, func(context.Context, error) error { panic(nil) })
			returned = true
		}()
		tags["nil-panic:"+where] = true
		if returned {
			c.Viol = append(c.Viol, hc.Violation{Clause: "C10: a panic reaches the caller with the same panic value", Detail: "GODEBUG=panicnil=1, panic(nil) in the " + where + " function: Execute returned normally", AtOp: len(c.Ops)})
		}
		if a, b := x.ConcurrentCommands(), x.ConcurrentFallbacks(); a != 0 || b != 0 {
			c.Viol = append(c.Viol, hc.Violation{Clause: "C10: afterwards both in-flight gauges are back to their previous values", Detail: fmt.Sprintf("after panic(nil) in the %s function: gauges %d %d", where, a, b), AtOp: len(c.Ops)})
		}
	}
}
