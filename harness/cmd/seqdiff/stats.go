package main

// Family "stats": rolling.RunStats / FallbackStats, the response-time SLO
// tracker and one real hystrix event-stream record fetched over HTTP, fed by a
// circuit that is driven through all seven run outcomes and three fallback
// outcomes with clock advances across the stats windows (property C20).

import (
	"bufio"
	"context"
	"encoding/json"
	"errors"
	"fmt"
	"io"
	"math"
	"math/rand"
	"net/http"
	"net/http/httptest"
	"strings"
	"sync"
	"time"

	"github.com/cep21/circuit/v4"
	"github.com/cep21/circuit/v4/metriceventstream"
	"github.com/cep21/circuit/v4/metrics/responsetimeslo"
	"github.com/cep21/circuit/v4/metrics/rolling"

	"verifharness/internal/hc"
)

type statsParams struct {
	N       int   `json:"n"`
	W       int64 `json:"w"`
	PN      int   `json:"pn"`
	PW      int64 `json:"pw"`
	PCap    int   `json:"pcap"`
	Healthy int64 `json:"healthy"`
	Timeout int64 `json:"timeout"`
	Live    bool  `json:"live,omitempty"` // the SLO setting is installed by Tracker.SetConfigThreadSafe (the only way to reach 0)
}

type statsOp struct {
	K    string `json:"k"` // call tick query
	Kind string `json:"kind,omitempty"`
	Dur  int64  `json:"dur,omitempty"`
	Fb   string `json:"fb,omitempty"` // none success failure reject
	D    int64  `json:"d,omitempty"`
	Open bool   `json:"open,omitempty"`
	NEv  int    `json:"nev,omitempty"` // query: events fed so far (filled in when executed)
	At   int64  `json:"at,omitempty"`  // query: clock, ns after T0 (filled in when executed)
}

type statsFamily struct{}

func init() { families["stats"] = statsFamily{} }

func statsCase(p statsParams, ops []statsOp) *hc.Case {
	c := &hc.Case{Params: hc.Raw(p)}
	for _, o := range ops {
		c.Ops = append(c.Ops, hc.Raw(o))
	}
	return c
}

var runKinds = []string{"KSuccess", "KFailure", "KTimeout", "KBadRequest", "KInterrupt", "KReject", "KShort"}

func (statsFamily) Corpus(string) []*hc.Case {
	p := statsParams{N: 4, W: sec, PN: 2, PW: 10 * sec, PCap: 3, Healthy: 250 * ms, Timeout: sec}
	var ops []statsOp
	for _, k := range runKinds {
		ops = append(ops, statsOp{K: "call", Kind: k, Dur: 100 * ms, Fb: "success"})
	}
	ops = append(ops, statsOp{K: "call", Kind: "KSuccess", Dur: 300 * ms}, statsOp{K: "call", Kind: "KInterrupt", Dur: 300 * ms, Fb: "failure"},
		statsOp{K: "call", Kind: "KFailure", Dur: 1, Fb: "reject"}, statsOp{K: "query"}, statsOp{K: "tick", D: 3 * sec}, statsOp{K: "call", Kind: "KFailure", Dur: 5}, statsOp{K: "query", Open: true},
		statsOp{K: "tick", D: 10 * sec}, statsOp{K: "query"})
	return []*hc.Case{statsCase(p, ops)}
}

func (statsFamily) Gen(r *rand.Rand, i int, tier string) *hc.Case {
	n := hc.Pick(r, 1, 2, 4, 10)
	p := statsParams{N: n, W: hc.Pick(r, ms, 100*ms, sec), PN: hc.Pick(r, 1, 2, 6), PW: hc.Pick(r, sec, 10*sec), PCap: hc.Pick(r, 1, 3, 100),
		Healthy: hc.Pick(r, ms, 250*ms), Timeout: hc.Pick(r, 10*ms, sec)}
	if r.Intn(2) == 0 {
		p.Live, p.Healthy = true, hc.Pick(r, int64(0), 0, ms, 250*ms, 400*ms)
	}
	var ops []statsOp
	nops := 8 + r.Intn(25)
	for len(ops) < nops {
		switch x := r.Intn(10); {
		case x < 7:
			k := runKinds[r.Intn(len(runKinds))]
			d := hc.Pick(r, int64(0), 1, p.Healthy-1, p.Healthy, p.Healthy+1, p.Timeout-1, p.Timeout)
			if d < 0 {
				d = 0
			}
			if d > p.Timeout {
				d = p.Timeout
			}
			ops = append(ops, statsOp{K: "call", Kind: k, Dur: d, Fb: hc.Pick(r, "none", "none", "success", "failure", "reject")})
		case x < 9:
			ops = append(ops, statsOp{K: "tick", D: hc.Pick(r, int64(1), p.W-1, p.W, p.W+1, int64(n)*p.W, int64(n)*p.W-1, 3*p.W)})
		default:
			ops = append(ops, statsOp{K: "query", Open: r.Intn(4) == 0})
		}
	}
	ops = append(ops, statsOp{K: "query"})
	return statsCase(p, ops)
}

type statsEv struct {
	run  bool
	kind string
	t    time.Time
	d    time.Duration
}

type statsRec struct {
	now func() time.Time
	evs *[]statsEv
}

func (r statsRec) rec(k string, t time.Time, d time.Duration) {
	*r.evs = append(*r.evs, statsEv{true, k, t, d})
}
func (r statsRec) Success(_ context.Context, t time.Time, d time.Duration) { r.rec("KSuccess", t, d) }
func (r statsRec) ErrFailure(_ context.Context, t time.Time, d time.Duration) {
	r.rec("KFailure", t, d)
}
func (r statsRec) ErrTimeout(_ context.Context, t time.Time, d time.Duration) {
	r.rec("KTimeout", t, d)
}
func (r statsRec) ErrBadRequest(_ context.Context, t time.Time, d time.Duration) {
	r.rec("KBadRequest", t, d)
}
func (r statsRec) ErrInterrupt(_ context.Context, t time.Time, d time.Duration) {
	r.rec("KInterrupt", t, d)
}
func (r statsRec) ErrConcurrencyLimitReject(_ context.Context, t time.Time) { r.rec("KReject", t, 0) }
func (r statsRec) ErrShortCircuit(_ context.Context, t time.Time)           { r.rec("KShort", t, 0) }

type statsFbRec struct{ evs *[]statsEv }

func (r statsFbRec) Success(_ context.Context, t time.Time, _ time.Duration) {
	*r.evs = append(*r.evs, statsEv{false, "FKSuccess", t, 0})
}
func (r statsFbRec) ErrFailure(_ context.Context, t time.Time, _ time.Duration) {
	*r.evs = append(*r.evs, statsEv{false, "FKFailure", t, 0})
}
func (r statsFbRec) ErrConcurrencyLimitReject(_ context.Context, t time.Time) {
	*r.evs = append(*r.evs, statsEv{false, "FKReject", t, 0})
}

func zl(l []int64) string { return hc.ZList(l) }

func (statsFamily) Exec(c *hc.Case) {
	var p statsParams
	must(json.Unmarshal(c.Params, &p))
	now := hc.T0
	clk := func() time.Time { return now }
	var evs []statsEv
	sf := &rolling.StatFactory{
		RunConfig: rolling.RunStatsConfig{Now: clk, RollingStatsDuration: time.Duration(int64(p.N) * p.W), RollingStatsNumBuckets: p.N,
			RollingPercentileDuration: time.Duration(int64(p.PN) * p.PW), RollingPercentileNumBuckets: p.PN, RollingPercentileBucketSize: p.PCap},
		FallbackConfig: rolling.FallbackStatsConfig{Now: clk, RollingStatsDuration: time.Duration(int64(p.N) * p.W), RollingStatsNumBuckets: p.N},
	}
	slo := &responsetimeslo.Factory{Config: responsetimeslo.Config{MaximumHealthyTime: time.Duration(p.Healthy)}}
	if p.Live {
		slo.Config.MaximumHealthyTime = 777 * time.Millisecond // replaced below, live
	}
	var tracker *responsetimeslo.Tracker
	m := &circuit.Manager{DefaultCircuitProperties: []circuit.CommandPropertiesConstructor{sf.CreateConfig, func(name string) circuit.Config {
		cfg := slo.CommandProperties(name)
		if name == "stats-circuit" {
			tracker = cfg.Metrics.Run[0].(*responsetimeslo.Tracker)
		}
		return cfg
	}}}
	base := circuit.Config{}
	base.General.TimeKeeper.Now = clk
	base.Execution.Timeout = time.Duration(p.Timeout)
	base.Execution.MaxConcurrentRequests = 10
	base.Fallback.MaxConcurrentRequests = 10
	base.Metrics.Run = []circuit.RunMetrics{statsRec{clk, &evs}}
	base.Metrics.Fallback = []circuit.FallbackMetrics{statsFbRec{&evs}}
	cir := m.MustCreateCircuit("stats-circuit", base)
	if p.Live {
		tracker.SetConfigThreadSafe(responsetimeslo.Config{MaximumHealthyTime: time.Duration(p.Healthy)})
	}
	// two more circuits in the same manager that never see traffic: every record of the stream must be about
	// the circuit it names (their records are all zeros and closed)
	m.MustCreateCircuit("a-idle")
	m.MustCreateCircuit("z-idle")
	live := func(mod func(*circuit.Config)) {
		cfg := circuit.Config{}
		cfg.General.TimeKeeper.Now = clk
		cfg.Execution.Timeout = time.Duration(p.Timeout)
		cfg.Execution.MaxConcurrentRequests = 10
		cfg.Fallback.MaxConcurrentRequests = 10
		if mod != nil {
			mod(&cfg)
		}
		cir.SetConfigThreadSafe(cfg)
	}
	rs, fs := sf.RunStats("stats-circuit"), sf.FallbackStats("stats-circuit")
	es := &metriceventstream.MetricEventStream{Manager: m, TickDuration: time.Millisecond}
	go func() { _ = es.Start() }()
	defer es.Close()
	srv := httptest.NewServer(es)
	defer srv.Close()
	errRun := errors.New("run")
	tags := map[string]bool{}
	for i, raw := range c.Ops {
		var o statsOp
		must(json.Unmarshal(raw, &o))
		out := "[]"
		switch o.K {
		case "tick":
			now = now.Add(time.Duration(o.D))
		case "call":
			ctx, cancel := context.WithCancel(context.Background())
			fbMod := func(cfg *circuit.Config) {}
			if o.Fb == "reject" {
				fbMod = func(cfg *circuit.Config) { cfg.Fallback.MaxConcurrentRequests = 0 } // 0 is stored verbatim by SetConfigThreadSafe
			}
			switch o.Kind {
			case "KReject":
				live(func(cfg *circuit.Config) { cfg.Execution.MaxConcurrentRequests = 0; fbMod(cfg) })
			case "KShort":
				live(func(cfg *circuit.Config) { cfg.General.ForceOpen = true; fbMod(cfg) })
			default:
				live(fbMod)
			}
			dur := o.Dur
			if o.Kind == "KTimeout" {
				dur = p.Timeout + 1 + o.Dur
			}
			var fb func(context.Context, error) error
			switch o.Fb {
			case "success", "reject":
				fb = func(context.Context, error) error { return nil }
			case "failure":
				fb = func(context.Context, error) error { return errRun }
			}
			_ = cir.Execute(ctx, func(context.Context) error {
				now = now.Add(time.Duration(dur))
				switch o.Kind {
				case "KFailure":
					return errRun
				case "KBadRequest":
					return circuit.SimpleBadRequest{Err: errRun}
				case "KInterrupt":
					cancel()
					return errRun
				case "KTimeout":
					if i%2 == 0 {
						return errRun
					}
				}
				return nil
			}, fb)
			cancel()
			live(nil)
			tags["call:"+o.Kind] = true
			if o.Fb != "none" {
				tags["fb:"+o.Fb] = true
			}
		case "query":
			if o.Open {
				live(func(cfg *circuit.Config) { cfg.General.ForceOpen = true })
			}
			var tot, rol []int64
			for _, ctr := range []interface {
				TotalSum() int64
				RollingSumAt(time.Time) int64
			}{&rs.Successes, &rs.ErrFailures, &rs.ErrTimeouts, &rs.ErrBadRequests, &rs.ErrInterrupts, &rs.ErrConcurrencyLimitRejects, &rs.ErrShortCircuits} {
				tot = append(tot, ctr.TotalSum())
				rol = append(rol, ctr.RollingSumAt(now))
			}
			var ftot, frol []int64
			for _, ctr := range []interface {
				TotalSum() int64
				RollingSumAt(time.Time) int64
			}{&fs.Successes, &fs.ErrFailures, &fs.ErrConcurrencyLimitRejects} {
				ftot = append(ftot, ctr.TotalSum())
				frol = append(frol, ctr.RollingSumAt(now))
			}
			ep := rs.ErrorPercentageAt(now)
			em, ee := decodeFloat(ep)
			pass, fail := tracker.MeetsSLOCount.Get(), tracker.FailsSLOCount.Get()
			// one real event-stream record
			recs, bad := fetchStreamRecords(srv.URL, 9)
			rec := recs["stats-circuit"]
			if rec == nil {
				rec = map[string]interface{}{}
			}
			for _, b := range bad {
				c.Viol = append(c.Viol, hc.Violation{Clause: "each hystrix event-stream record is computed from those same numbers together with the circuit's name and current IsOpen value", Detail: "a served record is not a JSON object about one of the manager's circuits: " + b, AtOp: i})
			}
			for _, idle := range []string{"a-idle", "z-idle"} {
				if r := recs[idle]; r != nil {
					for _, k := range []string{"requestCount", "errorCount", "rollingCountSuccess", "rollingCountFailure", "countSuccess", "countFailure", "countTimeout", "rollingCountShortCircuited", "countShortCircuited"} {
						if v, _ := r[k].(float64); v != 0 {
							c.Viol = append(c.Viol, hc.Violation{Clause: "each hystrix event-stream record is computed from those same numbers together with the circuit's name and current IsOpen value", Detail: fmt.Sprintf("record of the idle circuit %s has %s = %v", idle, k, v), AtOp: i})
						}
					}
					if o, _ := r["isCircuitBreakerOpen"].(bool); o {
						c.Viol = append(c.Viol, hc.Violation{Clause: "each hystrix event-stream record is computed from those same numbers together with the circuit's name and current IsOpen value", Detail: "record of the idle circuit " + idle + " says open", AtOp: i})
					}
				}
			}
			num := func(k string) int64 {
				v, _ := rec[k].(float64)
				return int64(v)
			}
			isOpen, _ := rec["isCircuitBreakerOpen"].(bool)
			name, _ := rec["name"].(string)
			sr := []int64{num("rollingCountSuccess"), num("rollingCountFailure"), num("rollingCountTimeout"), num("rollingCountBadRequests"), num("rollingCountSemaphoreRejected"), num("rollingCountShortCircuited")}
			st := []int64{num("countSuccess"), num("countFailure"), num("countTimeout"), num("countBadRequests"), num("countSemaphoreRejected"), num("countShortCircuited")}
			sfr := []int64{num("rollingCountFallbackSuccess"), num("rollingCountFallbackFailure"), num("rollingCountFallbackRejection")}
			sft := []int64{num("countFallbackSuccess"), num("countFallbackFailure"), num("countFallbackRejection")}
			out = fmt.Sprintf("[QTotals %s; QRollings %s; QFbTotals %s; QFbRollings %s; QErrPct %s %s; QSlo %s %s; QStream {| sm_request_count := %s; sm_error_count := %s; sm_error_pct := %s; sm_rolling := %s; sm_total := %s; sm_fb_rolling := %s; sm_fb_total := %s; sm_open := %s |}]",
				zl(tot), zl(rol), zl(ftot), zl(frol), hc.Zi(em), hc.Zi(ee), hc.Zi(pass), hc.Zi(fail),
				hc.Zi(num("requestCount")), hc.Zi(num("errorCount")), hc.Zi(num("errorPercentage")), zl(sr), zl(st), zl(sfr), zl(sft), hc.B(isOpen))
			// ---- the property's own clauses, from the observed events
			idx := func(t time.Time) int64 { return int64(t.Sub(hc.T0)) / p.W }
			cnt := map[string]int64{}
			cin := map[string]int64{}
			var wantPass, wantFail int64
			for _, e := range evs {
				cnt[e.kind]++
				if idx(e.t) > idx(now)-int64(p.N) {
					cin[e.kind]++
				}
				if e.run {
					switch e.kind {
					case "KSuccess":
						if int64(e.d) <= p.Healthy {
							wantPass++
						} else {
							wantFail++
						}
					case "KFailure", "KTimeout", "KReject", "KShort":
						wantFail++
					case "KInterrupt":
						if int64(e.d) > p.Healthy {
							wantFail++
						}
					}
				}
			}
			for k, name := range runKinds {
				if tot[k] != cnt[name] {
					c.Viol = append(c.Viol, hc.Violation{Clause: "RunStats report per outcome kind a total equal to the number of calls of that kind", Detail: fmt.Sprintf("%s total %d want %d", name, tot[k], cnt[name]), AtOp: i})
				}
				if rol[k] != cin[name] {
					c.Viol = append(c.Viol, hc.Violation{Clause: "RunStats report per outcome kind a rolling sum equal to those inside the window", Detail: fmt.Sprintf("%s rolling %d want %d", name, rol[k], cin[name]), AtOp: i})
				}
			}
			for k, name := range []string{"FKSuccess", "FKFailure", "FKReject"} {
				if ftot[k] != cnt[name] || frol[k] != cin[name] {
					c.Viol = append(c.Viol, hc.Violation{Clause: "FallbackStats report per outcome kind a total equal to the number of calls of that kind and a rolling sum equal to those inside the window", Detail: fmt.Sprintf("%s total %d/%d rolling %d/%d", name, ftot[k], cnt[name], frol[k], cin[name]), AtOp: i})
				}
			}
			s3, f3, t3, i3 := cin["KSuccess"], cin["KFailure"], cin["KTimeout"], cin["KInterrupt"]
			wantEp := 0.0
			if s3+f3+t3 > 0 {
				wantEp = float64(f3+t3) / float64(s3+f3+t3)
			}
			if math.Float64bits(ep) != math.Float64bits(wantEp) {
				c.Viol = append(c.Viol, hc.Violation{Clause: "ErrorPercentage equals (failures+timeouts)/(successes+failures+timeouts), zero when empty", Detail: fmt.Sprintf("got %v want %v", ep, wantEp), AtOp: i})
			}
			if pass != wantPass || fail != wantFail {
				c.Viol = append(c.Viol, hc.Violation{Clause: "the SLO tracker counts a pass for each success within MaximumHealthyTime and a fail for each slower success, failure, timeout, rejection, short-circuit and interrupt longer than that time, and nothing else", Detail: fmt.Sprintf("pass %d/%d fail %d/%d", pass, wantPass, fail, wantFail), AtOp: i})
			}
			if num("requestCount") != s3+f3+t3+i3 || num("errorCount") != f3+t3 || name != "stats-circuit" || isOpen != cir.IsOpen() {
				c.Viol = append(c.Viol, hc.Violation{Clause: "each event-stream record is computed from those same numbers (requestCount = successes+failures+timeouts+interrupts, errorCount = failures+timeouts) together with the circuit's name and current IsOpen value", Detail: fmt.Sprintf("requestCount %d errorCount %d name %q open %v", num("requestCount"), num("errorCount"), name, isOpen), AtOp: i})
			}
			if o.Open {
				live(nil)
			}
			o.NEv, o.At = len(evs), int64(now.Sub(hc.T0))
			c.Ops[i] = hc.Raw(o)
			tags["query"] = true
			if s3+f3+t3 > 0 && wantEp > 0 && wantEp < 1 {
				tags["errpct:fractional"] = true
			}
		}
		c.Outs = append(c.Outs, out)
	}
	// the events the consumers were fed, for the model
	var el []string
	for _, e := range evs {
		if e.run {
			el = append(el, fmt.Sprintf("SRun %s %s %s", e.kind, hc.ZofTime(e.t), hc.Zi(int64(e.d))))
		} else {
			el = append(el, fmt.Sprintf("SFb %s %s", e.kind, hc.ZofTime(e.t)))
		}
	}
	c.Outs = append(c.Outs, hc.List(el))
	// a second manager that shares the StatFactory and creates a circuit of the SAME name: its traffic is its own;
	// the stats of the first circuit do not move
	{
		before := []int64{rs.Successes.TotalSum(), rs.ErrFailures.TotalSum(), rs.ErrTimeouts.TotalSum(), fs.Successes.TotalSum(), fs.ErrFailures.TotalSum()}
		m2 := &circuit.Manager{DefaultCircuitProperties: []circuit.CommandPropertiesConstructor{sf.CreateConfig}}
		var b2 circuit.Config
		b2.General.TimeKeeper.Now = clk
		replica := m2.MustCreateCircuit("stats-circuit", b2)
		for k := 0; k < 3; k++ {
			_ = replica.Execute(context.Background(), func(context.Context) error { return errRun }, func(context.Context, error) error { return errRun })
			_ = replica.Run(context.Background(), func(context.Context) error { return nil })
		}
		after := []int64{rs.Successes.TotalSum(), rs.ErrFailures.TotalSum(), rs.ErrTimeouts.TotalSum(), fs.Successes.TotalSum(), fs.ErrFailures.TotalSum()}
		for k := range before {
			if before[k] != after[k] {
				c.Viol = append(c.Viol, hc.Violation{Clause: "RunStats and FallbackStats report per outcome kind a total equal to the number of calls of that kind", Detail: fmt.Sprintf("traffic on ANOTHER circuit (same name, another manager, same StatFactory) moved this circuit's totals: %v -> %v", before, after), AtOp: len(c.Ops)})
				break
			}
		}
	}
	if c.ID%4 == 0 {
		fallbackOnlyStreamProbe(c, clk)
	}
	if c.ID%4 == 1 {
		laggingListenerProbe(c)
	}
	for t := range tags {
		c.Tags = append(c.Tags, t)
	}
}

// fallbackOnlyStreamProbe: a circuit wired with rolling FallbackStats but no rolling RunStats (asymmetric wiring): its
// stream record still carries the fallback counts its FallbackStats counted.
func fallbackOnlyStreamProbe(c *hc.Case, clk func() time.Time) {
	fbs := &rolling.FallbackStats{}
	fbs.SetConfigNotThreadSafe(rolling.FallbackStatsConfig{Now: clk, RollingStatsDuration: 10 * time.Second, RollingStatsNumBuckets: 10})
	var cfg circuit.Config
	cfg.General.TimeKeeper.Now = clk
	cfg.Metrics.Fallback = []circuit.FallbackMetrics{fbs}
	m := &circuit.Manager{}
	cir := m.MustCreateCircuit("fb-only", cfg)
	errRun := errors.New("run")
	for k := 0; k < 3; k++ {
		_ = cir.Execute(context.Background(), func(context.Context) error { return errRun }, func(context.Context, error) error {
			if k == 2 {
				return errRun
			}
			return nil
		})
	}
	es := &metriceventstream.MetricEventStream{Manager: m, TickDuration: time.Millisecond}
	go func() { _ = es.Start() }()
	defer es.Close()
	srv := httptest.NewServer(es)
	defer srv.Close()
	rec := fetchStreamRecord(srv.URL)
	num := func(k string) int64 {
		f, _ := rec[k].(float64)
		return int64(f)
	}
	if len(rec) == 0 {
		return
	}
	ws, wf := fbs.Successes.TotalSum(), fbs.ErrFailures.TotalSum()
	if num("countFallbackSuccess") != ws || num("countFallbackFailure") != wf || num("rollingCountFallbackSuccess") != ws || num("rollingCountFallbackFailure") != wf {
		c.Viol = append(c.Viol, hc.Violation{Clause: "each hystrix event-stream record is computed from those same numbers together with the circuit's name and current IsOpen value", Detail: fmt.Sprintf("circuit with rolling FallbackStats only: FallbackStats counted %d successes / %d failures, the served record says total %d / %d, rolling %d / %d", ws, wf, num("countFallbackSuccess"), num("countFallbackFailure"), num("rollingCountFallbackSuccess"), num("rollingCountFallbackFailure")), AtOp: len(c.Ops)})
	}
}

// fetchStreamRecords reads up to n records of the stream: the last record seen per circuit name, and the
// data lines that are not a JSON object naming a known circuit.
func fetchStreamRecords(url string, n int) (map[string]map[string]interface{}, []string) {
	out := map[string]map[string]interface{}{}
	var bad []string
	req, _ := http.NewRequest("GET", url, nil)
	ctx, cancel := context.WithTimeout(context.Background(), 5*time.Second)
	defer cancel()
	resp, err := http.DefaultClient.Do(req.WithContext(ctx))
	if err != nil {
		return out, bad
	}
	defer resp.Body.Close()
	rd := bufio.NewReader(resp.Body)
	seen := 0
	for seen < n {
		line, err := rd.ReadString('\n')
		if strings.HasPrefix(line, "data:") {
			seen++
			payload := strings.TrimPrefix(strings.TrimSpace(line), "data:")
			var rec map[string]interface{}
			if json.Unmarshal([]byte(payload), &rec) != nil {
				bad = append(bad, payload)
			} else if name, _ := rec["name"].(string); name != "stats-circuit" && name != "a-idle" && name != "z-idle" && name != "cfg-circuit" {
				bad = append(bad, payload)
			} else {
				out[name] = rec
			}
		}
		if err != nil {
			break
		}
	}
	return out, bad
}

func fetchStreamRecord(url string) map[string]interface{} {
	req, _ := http.NewRequest("GET", url, nil)
	ctx, cancel := context.WithTimeout(context.Background(), 5*time.Second)
	defer cancel()
	resp, err := http.DefaultClient.Do(req.WithContext(ctx))
	if err != nil {
		return map[string]interface{}{}
	}
	defer resp.Body.Close()
	rd := bufio.NewReader(resp.Body)
	// the record wanted is one COMPUTED after this listener connected: a tick that was already under way when the
	// listener registered can still deliver what it computed before (seen once, under load, as a record computed
	// under the previous configuration) -- so the first record is skipped and the second returned
	seen := 0
	for {
		line, err := rd.ReadString('\n')
		if strings.HasPrefix(line, "data:") {
			var rec map[string]interface{}
			if json.Unmarshal([]byte(strings.TrimPrefix(strings.TrimSpace(line), "data:")), &rec) == nil {
				seen++
				if seen >= 2 {
					return rec
				}
			}
		}
		if err != nil {
			return map[string]interface{}{}
		}
	}
}

// The model needs, per query, the events fed BEFORE it and the clock: the emitter walks the ops again.
func (statsFamily) Emit(w io.Writer, f *hc.File) {
	fmt.Fprintln(w, "From CV Require Import Base.Prelude Seq.RollingCounter Seq.Logic Seq.Circuit Seq.Stats Seq.StatsCase.")
	fmt.Fprintf(w, "Definition t0 : Z := %s.\n", hc.ZofTime(hc.T0))
	fmt.Fprintln(w, "Definition cases : list stats_case := [")
	for i, c := range f.Cases {
		var p statsParams
		must(json.Unmarshal(c.Params, &p))
		// rebuild: for each query op the number of events seen so far is not recorded; instead the model is given
		// the whole interleaved script: events are attached to calls in order
		evs := c.Outs[len(c.Outs)-1]
		var script []string
		for k, raw := range c.Ops {
			var o statsOp
			must(json.Unmarshal(raw, &o))
			if o.K == "query" {
				script = append(script, fmt.Sprintf("(%d%%nat, t0 + %s, %s, %s)", o.NEv, hc.Zi(o.At), hc.B(o.Open), c.Outs[k]))
			}
		}
		sep := ";"
		if i == len(f.Cases)-1 {
			sep = ""
		}
		fmt.Fprintf(w, " (%d%%nat, (%d, %s, t0, %d, %s, %d, %s),\n  %s,\n  %s)%s\n", c.ID, p.N, hc.Zi(p.W), p.PN, hc.Zi(p.PW), p.PCap, hc.Zi(p.Healthy), evs, hc.List(script), sep)
	}
	fmt.Fprintln(w, "].")
	fmt.Fprintln(w, "Definition result := Eval vm_compute in stats_mismatches cases.")
	fmt.Fprintln(w, "Print result.")
}

// stallingWriter is a stream client that is slow to take its first record.
type stallingWriter struct {
	mu      sync.Mutex
	hdr     http.Header
	chunks  [][]byte
	first   chan struct{}
	release chan struct{}
	stalled bool
}

func (w *stallingWriter) Header() http.Header { return w.hdr }
func (w *stallingWriter) WriteHeader(int)     {}
func (w *stallingWriter) Flush()              {}
func (w *stallingWriter) Write(b []byte) (int, error) {
	w.mu.Lock()
	firstTime := !w.stalled
	w.stalled = true
	w.mu.Unlock()
	if firstTime {
		close(w.first)
		<-w.release
	}
	w.mu.Lock()
	w.chunks = append(w.chunks, append([]byte{}, b...))
	w.mu.Unlock()
	return len(b), nil
}

// laggingListenerProbe: records queued for a listener that lags behind are the records that were computed when they
// were queued.  The listener stalls inside its first write; ticks pass (records with zero counts pile up for it);
// ten calls succeed; more ticks pass; the listener is released.  Everything it is then served is a well-formed
// record of this circuit, and the records queued before the calls still say zero.
func laggingListenerProbe(c *hc.Case) {
	m := &circuit.Manager{DefaultCircuitProperties: []circuit.CommandPropertiesConstructor{(&rolling.StatFactory{}).CreateConfig}}
	cir := m.MustCreateCircuit("lagging")
	es := &metriceventstream.MetricEventStream{Manager: m, TickDuration: 5 * time.Millisecond}
	go func() { _ = es.Start() }()
	defer es.Close()
	w := &stallingWriter{hdr: http.Header{}, first: make(chan struct{}), release: make(chan struct{})}
	ctx, cancel := context.WithCancel(context.Background())
	req, _ := http.NewRequest("GET", "/", nil)
	served := make(chan struct{})
	go func() {
		defer close(served)
		es.ServeHTTP(w, req.WithContext(ctx))
	}()
	select {
	case <-w.first:
	case <-time.After(3 * time.Second):
		cancel()
		close(w.release)
		return
	}
	time.Sleep(40 * time.Millisecond) // records computed BEFORE any call are queued behind the stalled write
	callsStart := time.Now().UnixNano() / int64(time.Millisecond)
	for k := 0; k < 10; k++ {
		_ = cir.Run(context.Background(), func(context.Context) error { return nil })
	}
	time.Sleep(40 * time.Millisecond)
	close(w.release)
	time.Sleep(60 * time.Millisecond)
	cancel()
	<-served
	w.mu.Lock()
	defer w.mu.Unlock()
	sameTime := map[int64]int{}
	for _, ch := range w.chunks {
		for _, line := range strings.Split(string(ch), "\n") {
			if !strings.HasPrefix(line, "data:") {
				continue
			}
			var rec map[string]interface{}
			if json.Unmarshal([]byte(strings.TrimPrefix(strings.TrimSpace(line), "data:")), &rec) != nil || rec["name"] != "lagging" {
				c.Viol = append(c.Viol, hc.Violation{Clause: "each hystrix event-stream record is computed from those same numbers together with the circuit's name and current IsOpen value", Detail: fmt.Sprintf("a listener that lagged behind was served something that is not a record of its circuit: %.120q", line), AtOp: len(c.Ops)})
				return
			}
			cnt, _ := rec["requestCount"].(float64)
			at, _ := rec["currentTime"].(float64)
			sameTime[int64(at)]++
			if int64(at) < callsStart-1 && cnt != 0 {
				c.Viol = append(c.Viol, hc.Violation{Clause: "each hystrix event-stream record is computed from those same numbers together with the circuit's name and current IsOpen value", Detail: fmt.Sprintf("a record computed at %d ms, before the first call (%d ms), was served to a lagging listener with requestCount %v", int64(at), callsStart, cnt), AtOp: len(c.Ops)})
				return
			}
		}
	}
	for at, n := range sameTime {
		if n >= 3 { // one record per 5 ms tick: three served records with one time are one record three times
			c.Viol = append(c.Viol, hc.Violation{Clause: "each hystrix event-stream record is computed from those same numbers together with the circuit's name and current IsOpen value", Detail: fmt.Sprintf("a lagging listener was served %d records all computed at %d ms (one is computed per 5 ms tick): queued records were overwritten", n, at), AtOp: len(c.Ops)})
			return
		}
	}
}
