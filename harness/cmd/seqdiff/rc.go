package main

// Family "rc": faststats.RollingCounter, sequential use (property C13).

import (
	"encoding/json"
	"fmt"
	"io"
	"math"
	"math/big"
	"math/rand"
	"strings"
	"sync"
	"time"

	"github.com/cep21/circuit/v4/faststats"

	"verifharness/internal/hc"
)

type rcParams struct {
	N     int   `json:"n"`
	W     int64 `json:"w"`
	Start hc.TS `json:"start"`
}

type rcOp struct {
	K string `json:"k"` // inc sum buckets reset total json
	T hc.TS  `json:"t"`
}

type rcFamily struct{}

func init() { families["rc"] = rcFamily{} }

func rcCase(p rcParams, ops []rcOp) *hc.Case {
	c := &hc.Case{Params: hc.Raw(p)}
	for _, o := range ops {
		c.Ops = append(c.Ops, hc.Raw(o))
	}
	return c
}

// at returns start + d nanoseconds.
func (p rcParams) at(d int64) hc.TS { return hc.TS{S: p.Start.S, N: p.Start.N + d} }

func (rcFamily) Corpus(string) []*hc.Case {
	p := rcParams{N: 4, W: int64(time.Second), Start: hc.TS{}}
	s := int64(time.Second)
	top := rcParams{N: 5, W: 1, Start: hc.TS{}}
	mx := int64(math.MaxInt64)
	return []*hc.Case{
		// D4: stamp older than the window but after the start must only move TotalSum
		rcCase(p, []rcOp{{"inc", p.at(20 * s)}, {"inc", p.at(3 * s)}, {"sum", p.at(20 * s)}, {"buckets", p.at(20 * s)}, {"total", hc.TS{}}}),
		// exactly one window back: index == latest-N is out, latest-N+1 is in
		rcCase(p, []rcOp{{"inc", p.at(10 * s)}, {"inc", p.at(6 * s)}, {"inc", p.at(7 * s)}, {"sum", p.at(10 * s)}, {"buckets", p.at(10 * s)}}),
		// before start, far future (Sub saturates), then everything is stale
		rcCase(p, []rcOp{{"inc", p.at(-1)}, {"inc", p.at(0)}, {"sum", p.at(0)}, {"inc", hc.TS{S: 400 * 365 * 86400}}, {"sum", p.at(5 * s)}, {"buckets", p.at(5 * s)}, {"inc", p.at(5 * s)}, {"total", hc.TS{}}, {"sum", hc.TS{S: 400 * 365 * 86400}}}),
		// reset keeps TotalSum; JSON round trip keeps everything
		rcCase(p, []rcOp{{"inc", p.at(0)}, {"inc", p.at(s)}, {"json", hc.TS{}}, {"sum", p.at(s)}, {"reset", p.at(s)}, {"sum", p.at(s)}, {"total", hc.TS{}}, {"inc", p.at(2 * s)}, {"json", hc.TS{}}, {"buckets", p.at(3 * s)}}),
		// top of the int range: 1 ns buckets, newest index MaxInt64 (or a few below it); stamps just behind it are inside the
		// window (an `absIndex+NumBuckets` anywhere would wrap), one window back is out
		rcCase(top, []rcOp{{"inc", top.at(mx)}, {"inc", top.at(mx - 1)}, {"inc", top.at(mx - 4)}, {"inc", top.at(mx - 5)}, {"sum", top.at(mx)}, {"buckets", top.at(mx)}, {"total", hc.TS{}}, {"json", hc.TS{}}, {"inc", top.at(mx - 2)}, {"buckets", top.at(mx)}}),
		rcCase(top, []rcOp{{"inc", top.at(mx - 7)}, {"sum", top.at(mx - 2)}, {"inc", top.at(mx - 3)}, {"inc", top.at(mx - 6)}, {"inc", top.at(mx - 7)}, {"buckets", top.at(mx - 2)}, {"sum", top.at(mx - 4)}, {"inc", top.at(mx)}, {"buckets", top.at(mx)}, {"total", hc.TS{}}}),
		rcCase(rcParams{N: 1, W: 7, Start: hc.TS{S: 5, N: 3}}, []rcOp{{"inc", hc.TS{S: 5, N: 3}}, {"inc", hc.TS{S: 5, N: 9}}, {"sum", hc.TS{S: 5, N: 9}}, {"inc", hc.TS{S: 5, N: 10}}, {"buckets", hc.TS{S: 5, N: 10}}, {"inc", hc.TS{S: 5, N: 4}}, {"sum", hc.TS{S: 5, N: 10}}}),
	}
}

func (rcFamily) Gen(r *rand.Rand, i int, tier string) *hc.Case {
	p := rcParams{
		N:     hc.Pick(r, 1, 1, 2, 3, 4, 4, 5, 7, 10, 12),
		W:     hc.Pick(r, int64(1), 2, 7, 1000, int64(time.Millisecond), int64(time.Second), int64(time.Second), int64(time.Hour)),
		Start: hc.TS{S: int64(r.Intn(1000)), N: int64(r.Intn(1000000000))},
	}
	nops := 5 + r.Intn(30)
	var ops []rcOp
	latest := int64(0) // generator's idea of the newest presented index
	farUsed := false
	for len(ops) < nops {
		if !farUsed && r.Intn(12) == 0 {
			// a READ is what moves the window: (optionally empty it,) read some buckets ahead, then use and read
			// stamps the move has made stale, before anything newer is presented
			n := int64(p.N)
			at := func(idx int64) hc.TS {
				if idx < 0 {
					idx = 0
				}
				return p.at(idx*p.W + hc.Pick(r, int64(0), p.W-1, r.Int63n(p.W)))
			}
			if r.Intn(2) == 0 {
				ops = append(ops, rcOp{"reset", at(latest)})
			}
			latest += hc.Pick(r, int64(2), n, n+1, n+3, 5*n)
			ops = append(ops, rcOp{hc.Pick(r, "sum", "sum", "buckets", "reset", "reset", "inc"), at(latest)}) // whichever operation it is, it presents the newest time
			for k := 1 + r.Intn(3); k > 0; k-- {
				ops = append(ops, rcOp{"inc", at(latest - n - hc.Pick(r, int64(-1), 0, 0, 1, 2))})
			}
			ops = append(ops, rcOp{hc.Pick(r, "sum", "buckets"), at(latest - hc.Pick(r, int64(1), 2, 2, n, n+1))})
			if r.Intn(3) == 0 {
				ops = append(ops, rcOp{"json", hc.TS{}}, rcOp{hc.Pick(r, "sum", "buckets"), at(latest - hc.Pick(r, int64(0), 1, n))})
			}
			continue
		}
		if nn := int64(p.N); !farUsed && latest >= int64(1)<<32-nn-2 && latest < int64(1)<<32+nn {
			// walking across bucket index 2^32 one bucket at a time, counting and reading on both sides of it
			latest++
			t := p.at(latest*p.W + hc.Pick(r, int64(0), p.W-1))
			ops = append(ops, rcOp{"inc", t}, rcOp{hc.Pick(r, "sum", "buckets", "buckets"), t})
			continue
		}
		before := latest
		t := rcStamp(r, p, &latest, &farUsed, len(ops) > nops*2/3)
		huge := farUsed || (latest > before && latest >= int64(1)<<53)
		if huge && r.Intn(2) == 0 {
			// a JSON round trip right after the index became huge, then a read of the restored counter
			ops = append(ops, rcOp{hc.Pick(r, "inc", "sum", "buckets"), t}, rcOp{"json", hc.TS{}}, rcOp{hc.Pick(r, "sum", "buckets"), t})
			continue
		}
		switch x := r.Intn(100); {
		case x < 55:
			ops = append(ops, rcOp{"inc", t})
			if r.Intn(3) == 0 { // bursts in one bucket
				for k := r.Intn(4); k > 0; k-- {
					ops = append(ops, rcOp{"inc", t})
				}
			}
		case x < 70:
			ops = append(ops, rcOp{"sum", t})
		case x < 82:
			ops = append(ops, rcOp{"buckets", t})
		case x < 88:
			ops = append(ops, rcOp{"reset", t})
		case x < 95:
			ops = append(ops, rcOp{"total", hc.TS{}})
		default:
			ops = append(ops, rcOp{"json", hc.TS{}})
		}
	}
	// always end by observing everything at the newest time
	end := p.at(latest * p.W)
	if farUsed {
		end = hc.TS{S: 400 * 365 * 86400}
	}
	ops = append(ops, rcOp{"sum", end}, rcOp{"buckets", end}, rcOp{"total", hc.TS{}})
	c := rcCase(p, ops)
	if i%7 == 6 {
		c.Kind = "edge"
	}
	return c
}

// rcStamp draws a timestamp from the classes the property quantifies over.
func rcStamp(r *rand.Rand, p rcParams, latest *int64, farUsed *bool, late bool) hc.TS {
	if *farUsed {
		// after a saturating stamp everything representable is stale or equal
		if r.Intn(3) == 0 {
			return hc.TS{S: 400*365*86400 + int64(r.Intn(3))}
		}
		return p.at(int64(r.Intn(100)) * p.W)
	}
	l := *latest
	w := p.W
	n := int64(p.N)
	var d int64
	switch x := r.Intn(100); {
	case x < 6: // before start
		d = -hc.Pick(r, int64(1), w, 3*w+1, int64(time.Hour))
	case x < 26: // in the newest bucket, incl. both boundaries
		d = l*w + hc.Pick(r, int64(0), w-1, r.Int63n(w))
	case x < 44: // forward by 1..n+2 buckets
		k := 1 + r.Int63n(n+2)
		d = (l+k)*w + hc.Pick(r, int64(0), w-1, r.Int63n(w))
	case x < 50: // forward exactly to the boundary - 1ns of the next bucket / first ns of it
		d = (l+1)*w - hc.Pick(r, int64(0), 1)
	case x < 68: // inside the window, older bucket
		k := r.Int63n(n)
		d = (l-k)*w + hc.Pick(r, int64(0), w-1, r.Int63n(w))
	case x < 88: // around one window back: latest-n-1 .. latest-n+1, on boundaries
		k := n + hc.Pick(r, int64(-1), 0, 0, 1)
		d = (l-k)*w + hc.Pick(r, int64(0), w-1, int64(-1), w)
	case x < 94: // much older but after start
		d = r.Int63n(l*w + 1)
	default:
		if late && r.Intn(2) == 0 {
			*farUsed = true
			return hc.TS{S: 400 * 365 * 86400} // Sub saturates: ~ 292 years
		}
		if w <= int64(time.Millisecond) && r.Intn(3) == 0 {
			// a window that straddles bucket index 2^32 (seconds to weeks after the start, with narrow buckets)
			k := int64(1)<<32 - hc.Pick(r, int64(1), 2, n, n+1)
			if k > l {
				d = k*w + hc.Pick(r, int64(0), w-1)
				break
			}
		}
		if w <= 1000 && r.Intn(2) == 0 {
			// a bucket index past 2^53 (odd: no float64 holds it) -- narrow buckets, months to decades after the start
			k := int64(1)<<53 + 1 + 2*int64(r.Intn(50))
			if k > l {
				d = k*w + hc.Pick(r, int64(0), w-1)
				break
			}
		}
		d = (l + 5*n) * w
	}
	if d >= 0 && d/w > l {
		*latest = d / w
	}
	return p.at(d)
}

// counterStressProbe (search, real goroutines): a counter that has already seen about a million events, then four
// parties counting into one bucket at once; at quiescence C14's conservation clauses hold.
func counterStressProbe(c *hc.Case) {
	start := hc.T0
	for round := 0; round < 60; round++ {
		ctr := faststats.NewRollingCounter(time.Second, 4096, start) // many buckets: a scan of them takes a while
		pre := 1<<20 - 4000 - round
		for k := 0; k < pre; k++ {
			ctr.Inc(start)
		}
		var wg sync.WaitGroup
		for g := 0; g < 4; g++ {
			wg.Add(1)
			go func() {
				defer wg.Done()
				for k := 0; k < 4000; k++ {
					ctr.Inc(start)
				}
			}()
		}
		wg.Wait()
		want := int64(pre + 16000)
		bsum := int64(0)
		for _, b := range ctr.GetBuckets(start) {
			bsum += b
		}
		if got := ctr.RollingSumAt(start); ctr.TotalSum() != want || got != bsum || got != want {
			c.Viol = append(c.Viol, hc.Violation{Clause: "C14: once all operations have returned TotalSum equals the number of Inc calls and the rolling sum equals the sum of the buckets", Detail: fmt.Sprintf("%d Inc calls in one bucket (the last 16000 by four goroutines): TotalSum %d, rolling sum %d, buckets sum %d", want, ctr.TotalSum(), got, bsum), AtOp: len(c.Ops)})
			return
		}
	}
}

func (rcFamily) Exec(c *hc.Case) {
	var p rcParams
	must(json.Unmarshal(c.Params, &p))
	if c.ID == 0 {
		defer counterStressProbe(c)
	}
	start := hc.TimeOf(p.Start)
	ctr := faststats.NewRollingCounter(time.Duration(p.W), p.N, start)
	cur := &ctr
	var decoys []*faststats.RollingCounter
	_ = decoys
	// the property's own oracle, straight from its statement
	var incs []*big.Int // bucket index of each Inc since the last Reset that was valid when made
	latest := big.NewInt(0)
	total := int64(0)
	tags := map[string]bool{}
	bucketOf := func(ts hc.TS) (*big.Int, bool) {
		d := new(big.Int).SetInt64(ts.S - p.Start.S)
		d.Mul(d, big.NewInt(1000000000))
		d.Add(d, big.NewInt(ts.N-p.Start.N))
		maxd := big.NewInt(1<<63 - 1)
		if d.Cmp(maxd) > 0 {
			d = maxd
			tags["stamp:saturating"] = true
		}
		if d.Sign() < 0 {
			tags["stamp:before_start"] = true
			return nil, false
		}
		return d.Div(d, big.NewInt(p.W)), true
	}
	presentT := func(ts hc.TS) (*big.Int, bool) {
		b, ok := bucketOf(ts)
		if ok && b.Cmp(latest) > 0 {
			if new(big.Int).Sub(b, latest).Cmp(big.NewInt(int64(p.N))) >= 0 {
				tags["roll:whole_window"] = true
			} else {
				tags["roll:partial"] = true
			}
			latest = b
		} else if ok && b.Cmp(latest) < 0 {
			tags["stamp:older_than_latest"] = true
		}
		return b, ok
	}
	inWin := func(b *big.Int) bool {
		lo := new(big.Int).Sub(latest, big.NewInt(int64(p.N)))
		return b.Cmp(lo) > 0
	}
	expectSum := func() int64 {
		k := int64(0)
		for _, b := range incs {
			if inWin(b) {
				k++
			}
		}
		return k
	}
	for i, raw := range c.Ops {
		var o rcOp
		must(json.Unmarshal(raw, &o))
		t := hc.TimeOf(o.T)
		out := "ONone"
		func() {
			defer func() {
				if r := recover(); r != nil {
					out = "OPanic"
					c.Viol = append(c.Viol, hc.Violation{Clause: "no timestamp makes any operation panic", Detail: fmt.Sprintf("%s panicked: %v", o.K, r), AtOp: i})
				}
			}()
			switch o.K {
			case "inc":
				cur.Inc(t)
				total++
				if b, ok := presentT(o.T); ok {
					if inWin(b) {
						incs = append(incs, b)
					} else {
						tags["inc:older_than_window"] = true
					}
				}
			case "sum":
				presentT(o.T)
				v := cur.RollingSumAt(t)
				out = "OZ " + hc.Zi(v)
				if e := expectSum(); v != e {
					c.Viol = append(c.Viol, hc.Violation{Clause: "RollingSumAt equals the number of Inc calls in the newest NumBuckets buckets", Detail: fmt.Sprintf("got %d want %d", v, e), AtOp: i})
				}
				if v > 0 {
					tags["sum:nonzero"] = true
				}
			case "buckets":
				presentT(o.T)
				v := cur.GetBuckets(t)
				out = "OList " + hc.ZList(v)
				for k := range v {
					want := int64(0)
					bi := new(big.Int).Sub(latest, big.NewInt(int64(k)))
					for _, b := range incs {
						if b.Cmp(bi) == 0 {
							want++
						}
					}
					if v[k] != want {
						c.Viol = append(c.Viol, hc.Violation{Clause: "GetBuckets returns the per-bucket counts newest first", Detail: fmt.Sprintf("bucket %d: got %d want %d", k, v[k], want), AtOp: i})
						break
					}
				}
			case "reset":
				presentT(o.T)
				cur.Reset(t)
				incs = nil
				tags["op:reset"] = true
			case "total":
				v := cur.TotalSum()
				out = "OZ " + hc.Zi(v)
				if v != total {
					c.Viol = append(c.Viol, hc.Violation{Clause: "TotalSum equals the number of Inc calls", Detail: fmt.Sprintf("got %d want %d", v, total), AtOp: i})
				}
			case "json":
				b, err := json.Marshal(cur)
				if err != nil {
					out = "OPanic"
					break
				}
				fresh := &faststats.RollingCounter{}
				if err := json.Unmarshal(b, fresh); err != nil {
					out = "OPanic"
					break
				}
				cur = fresh
				// another counter restored right afterwards (same goroutine) and used: restored counters are independent
				other := faststats.NewRollingCounter(time.Duration(p.W), p.N, start)
				for k := 0; k < 3; k++ {
					other.Inc(start.Add(time.Duration(int64(k%p.N) * p.W)))
				}
				if ob, err := json.Marshal(&other); err == nil {
					decoy := &faststats.RollingCounter{}
					if json.Unmarshal(ob, decoy) == nil {
						decoy.Inc(start.Add(time.Duration(int64(p.N-1) * p.W)))
						decoys = append(decoys, decoy)
					}
				}
				tags["op:json"] = true
			}
		}()
		c.Outs = append(c.Outs, out)
	}
	for t := range tags {
		c.Tags = append(c.Tags, t)
	}
	c.Tags = append(c.Tags, fmt.Sprintf("n:%d", p.N))
}

func (rcFamily) Emit(w io.Writer, f *hc.File) {
	fmt.Fprintln(w, "From CV Require Import Base.Prelude Seq.RollingCounter Seq.CaseCheck.")
	fmt.Fprintln(w, "Definition cases : list rc_case := [")
	for i, c := range f.Cases {
		var p rcParams
		must(json.Unmarshal(c.Params, &p))
		var ops []string
		for _, raw := range c.Ops {
			var o rcOp
			must(json.Unmarshal(raw, &o))
			switch o.K {
			case "inc":
				ops = append(ops, "Inc "+hc.ZOf(o.T))
			case "sum":
				ops = append(ops, "SumAt "+hc.ZOf(o.T))
			case "buckets":
				ops = append(ops, "Buckets "+hc.ZOf(o.T))
			case "reset":
				ops = append(ops, "Reset "+hc.ZOf(o.T))
			case "total":
				ops = append(ops, "Total")
			case "json":
				ops = append(ops, "Json")
			}
		}
		sep := ";"
		if i == len(f.Cases)-1 {
			sep = ""
		}
		fmt.Fprintf(w, " (%d%%nat, %d, %d, %s, %s,\n   %s)%s\n", c.ID, p.N, p.W, hc.ZOf(p.Start), hc.List(ops), hc.List(c.Outs), sep)
	}
	fmt.Fprintln(w, "].")
	fmt.Fprintln(w, "Definition result := Eval vm_compute in rc_mismatches cases.")
	fmt.Fprintln(w, "Print result.")
	_ = strings.Join
}
