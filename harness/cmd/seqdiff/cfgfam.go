package main

// Family "cfg" (property C11, clause d): a live circuit with the hystrix opener
// and closer, rolling stats, an SLO tracker and a running metrics event stream is
// reconfigured with PARTIALLY FILLED configurations (every optional function
// field independently present or absent) through SetConfigThreadSafe on the
// circuit, the opener, the closer and the tracker; after each reconfiguration
// every read-side diagnostic and the decisions that read optional fields are
// exercised.  Any panic is the outcome DPanic, which the model never produces.

import (
	"context"
	"encoding/json"
	"errors"
	"fmt"
	"io"
	"math/rand"
	"net/http/httptest"
	"sync"
	"time"

	"github.com/cep21/circuit/v4"
	"github.com/cep21/circuit/v4/closers/hystrix"
	"github.com/cep21/circuit/v4/metriceventstream"
	"github.com/cep21/circuit/v4/metrics/responsetimeslo"
	"github.com/cep21/circuit/v4/metrics/rolling"

	"verifharness/internal/hc"
)

type cfgOp struct {
	K       string `json:"k"` // setcfg | q
	Now     bool   `json:"now,omitempty"`
	After   bool   `json:"after,omitempty"`
	Lost    bool   `json:"lost,omitempty"`
	IE      string `json:"ie,omitempty"` // nil true false
	Timeout int64  `json:"timeout,omitempty"`
	Max     int64  `json:"max,omitempty"`
	Also    string `json:"also,omitempty"` // also reconfigure: opener closer slo (partial configs of theirs)
	Q       string `json:"q,omitempty"`    // config stream interrupt isopen gauges var mgrvar stats slovar openervar
}

type cfgFamily struct{}

func init() { families["cfg"] = cfgFamily{} }

func cfgCase(ops []cfgOp) *hc.Case {
	c := &hc.Case{Params: hc.Raw(map[string]string{})}
	for _, o := range ops {
		c.Ops = append(c.Ops, hc.Raw(o))
	}
	return c
}

var cfgQueries = []string{"config", "stream", "interrupt", "isopen", "gauges", "var", "mgrvar", "stats", "slovar", "openervar"}

func allQueries() []cfgOp {
	var ops []cfgOp
	for _, q := range cfgQueries {
		ops = append(ops, cfgOp{K: "q", Q: q})
	}
	return ops
}

func (cfgFamily) Corpus(string) []*hc.Case {
	// D9d: the library's own ExampleCircuit_SetConfigThreadSafe shape -- only numbers set, then the event stream
	a := append([]cfgOp{{K: "setcfg", IE: "nil", Timeout: int64(time.Second), Max: 10}}, allQueries()...)
	// everything set, then everything unset
	b := append([]cfgOp{{K: "setcfg", Now: true, After: true, Lost: true, IE: "true", Timeout: int64(time.Hour), Max: 3, Also: "closer"}}, allQueries()...)
	b = append(b, cfgOp{K: "setcfg", IE: "nil", Also: "opener"})
	b = append(b, allQueries()...)
	return []*hc.Case{cfgCase(a), cfgCase(b)}
}

func (cfgFamily) Gen(r *rand.Rand, i int, tier string) *hc.Case {
	var ops []cfgOp
	n := 2 + r.Intn(4)
	for k := 0; k < n; k++ {
		ops = append(ops, cfgOp{K: "setcfg", Now: r.Intn(2) == 0, After: r.Intn(2) == 0, Lost: r.Intn(2) == 0, IE: hc.Pick(r, "nil", "nil", "true", "false"),
			Timeout: hc.Pick(r, int64(0), 0, -1, int64(time.Second), int64(time.Hour)), Max: hc.Pick(r, int64(0), -1, 1, 10), Also: hc.Pick(r, "", "", "opener", "closer", "slo")})
		for _, q := range cfgQueries {
			if r.Intn(3) > 0 {
				ops = append(ops, cfgOp{K: "q", Q: q})
			}
		}
	}
	return cfgCase(ops)
}

func (o cfgOp) coqCfg() string {
	ie := map[string]string{"nil": "IENil", "": "IENil", "true": "IETrue", "false": "IEFalse"}[o.IE]
	return fmt.Sprintf("{| oc_now := %v; oc_after := %v; oc_lost := %v; oc_ie := %s; oc_timeout := %s; oc_max := %s |}", o.Now, o.After, o.Lost, ie, hc.Zi(o.Timeout), hc.Zi(o.Max))
}

func (cfgFamily) Exec(c *hc.Case) {
	now := hc.T0
	clk := func() time.Time { return now }
	sf := &rolling.StatFactory{}
	slo := &responsetimeslo.Factory{Config: responsetimeslo.Config{MaximumHealthyTime: time.Second}}
	hf := &hystrix.Factory{}
	var tracker *responsetimeslo.Tracker
	m := &circuit.Manager{DefaultCircuitProperties: []circuit.CommandPropertiesConstructor{hf.Configure, sf.CreateConfig, func(name string) circuit.Config {
		cfg := slo.CommandProperties(name)
		tracker = cfg.Metrics.Run[0].(*responsetimeslo.Tracker)
		return cfg
	}}}
	var kinds []string
	rec := kindRec{&kinds}
	base := circuit.Config{}
	base.Metrics.Run = []circuit.RunMetrics{rec}
	cir := m.MustCreateCircuit("cfg-circuit", base)
	es := &metriceventstream.MetricEventStream{Manager: m, TickDuration: time.Millisecond}
	streamPanic := make(chan interface{}, 1)
	go func() {
		defer func() {
			if r := recover(); r != nil {
				streamPanic <- r
			}
		}()
		_ = es.Start()
	}()
	defer es.Close()
	srv := httptest.NewServer(es)
	defer srv.Close()
	errRun := errors.New("run")
	cur := cfgOp{IE: "nil"}
	tags := map[string]bool{}
	for i, raw := range c.Ops {
		var o cfgOp
		must(json.Unmarshal(raw, &o))
		out := "DOk"
		guard := func(f func()) {
			defer func() {
				if r := recover(); r != nil {
					out = "DPanic"
					c.Viol = append(c.Viol, hc.Violation{Clause: "C11: reconfiguration and every read-side diagnostic run without panic, including configurations that leave optional fields unset",
						Detail: fmt.Sprintf("%s %s panicked: %v", o.K, o.Q, r), AtOp: i})
				}
			}()
			f()
		}
		switch o.K {
		case "setcfg":
			cur = o
			guard(func() {
				cfg := circuit.Config{}
				if o.Now {
					cfg.General.TimeKeeper.Now = clk
				}
				if o.After {
					cfg.General.TimeKeeper.AfterFunc = func(d time.Duration, f func()) *time.Timer { return time.AfterFunc(time.Hour, f) }
				}
				if o.Lost {
					cfg.General.GoLostErrors = func(error, interface{}) {}
				}
				switch o.IE {
				case "true":
					cfg.Execution.IsErrInterrupt = func(error) bool { return true }
				case "false":
					cfg.Execution.IsErrInterrupt = func(error) bool { return false }
				}
				cfg.Execution.Timeout = time.Duration(o.Timeout)
				cfg.Execution.MaxConcurrentRequests = o.Max
				cfg.Fallback.MaxConcurrentRequests = 10
				cir.SetConfigThreadSafe(cfg)
				switch o.Also {
				case "opener":
					cir.ClosedToOpen.(*hystrix.Opener).SetConfigThreadSafe(hystrix.ConfigureOpener{RequestVolumeThreshold: 50})
				case "closer":
					cir.OpenToClose.(*hystrix.Closer).SetConfigThreadSafe(hystrix.ConfigureCloser{HalfOpenAttempts: 2})
				case "slo":
					tracker.SetConfigThreadSafe(responsetimeslo.Config{})
				}
			})
			tags["setcfg"] = true
			if !o.Now {
				tags["timekeeper:unset"] = true
			}
			tags["also:"+o.Also] = true
			out = "DOk"
			if len(c.Viol) > 0 && c.Viol[len(c.Viol)-1].AtOp == i {
				out = "DPanic"
			}
		case "q":
			tags["q:"+o.Q] = true
			switch o.Q {
			case "config":
				guard(func() {
					g := cir.Config()
					ie := int64(0)
					if g.Execution.IsErrInterrupt != nil {
						ie = 2
						if g.Execution.IsErrInterrupt(errRun) {
							ie = 1
						}
					}
					out = fmt.Sprintf("DEcho %s %s %v %v %v %d", hc.Zi(int64(g.Execution.Timeout)), hc.Zi(g.Execution.MaxConcurrentRequests),
						g.General.TimeKeeper.Now != nil, g.General.TimeKeeper.AfterFunc != nil, g.General.GoLostErrors != nil, ie)
				})
			case "stream":
				guard(func() {
					r := fetchStreamRecord(srv.URL)
					select {
					case p := <-streamPanic:
						panic(fmt.Sprintf("event stream goroutine: %v", p))
					default:
					}
					ms, ok := r["currentTime"].(float64)
					if !ok {
						panic("no event-stream record was served")
					}
					// the substitute clock is in the year 2200; time.Now is not
					out = fmt.Sprintf("DClockIs %v", int64(ms) > hc.T0.Add(-24*time.Hour).UnixNano()/int64(time.Millisecond))
				})
			case "interrupt":
				guard(func() {
					// a failing call whose caller context is done when it returns; admit it whatever the limits say
					kinds = kinds[:0]
					ctx, cancel := context.WithCancel(context.Background())
					_ = cir.Run(ctx, func(context.Context) error { cancel(); return errRun })
					cancel()
					if len(kinds) != 1 {
						panic(fmt.Sprintf("expected one run event, got %v", kinds))
					}
					out = "DKind " + kinds[0]
				})
			case "isopen":
				guard(func() { _ = cir.IsOpen() })
			case "gauges":
				guard(func() { _ = cir.ConcurrentCommands(); _ = cir.ConcurrentFallbacks() })
			case "var":
				guard(func() { _ = cir.Var().String() })
			case "mgrvar":
				guard(func() { _ = m.Var().String() })
			case "stats":
				guard(func() {
					rs := sf.RunStats("cfg-circuit")
					_ = rs.Var().String()
					_ = rs.Latencies.Snapshot().Var().String()
					_ = rs.ErrorPercentage()
					_ = sf.FallbackStats("cfg-circuit").Var().String()
				})
			case "slovar":
				guard(func() { _ = tracker.Var().String(); _ = tracker.Config() })
			case "openervar":
				guard(func() {
					_ = cir.ClosedToOpen.(*hystrix.Opener).Config()
					_ = cir.OpenToClose.(*hystrix.Closer).Config()
					b1, _ := json.Marshal(cir.ClosedToOpen)
					b2, _ := json.Marshal(cir.OpenToClose)
					_, _ = b1, b2
				})
			}
		}
		// remember which configuration each answer was given under
		c.Outs = append(c.Outs, fmt.Sprintf("(%s, %s, %s)", cur.coqCfg(), cfgQueryCoq(o), out))
	}
	callbackProbe(c, tags)
	for t := range tags {
		c.Tags = append(c.Tags, t)
	}
}

// callbackProbe: a metrics collector whose callbacks read the diagnostics (Config, IsOpen, Var) while the control
// plane reconfigures the circuit.  Neither blocks the other: every callback kind is provoked once, inside it a
// SetConfigThreadSafe is started on another goroutine and, once that has finished or has had 25 ms to queue up, the
// diagnostics are read.
type reconfCollector struct {
	cir   *circuit.Circuit
	cfg   circuit.Config
	mu    sync.Mutex
	seen  map[string]bool
	stuck []string
}

func (r *reconfCollector) poke(kind string) {
	r.mu.Lock()
	first := !r.seen[kind]
	r.seen[kind] = true
	r.mu.Unlock()
	if !first {
		return
	}
	set := make(chan struct{})
	go func() {
		defer close(set)
		r.cir.SetConfigThreadSafe(r.cfg)
	}()
	select {
	case <-set:
	case <-time.After(25 * time.Millisecond):
	}
	read := make(chan struct{})
	go func() {
		defer close(read)
		_ = r.cir.Config()
		_ = r.cir.IsOpen()
		_ = r.cir.Var().String()
	}()
	select {
	case <-read:
	case <-time.After(2 * time.Second):
		r.mu.Lock()
		r.stuck = append(r.stuck, kind+": Config/IsOpen/Var still blocked after 2 s")
		r.mu.Unlock()
		return
	}
	select {
	case <-set:
	case <-time.After(2 * time.Second):
		r.mu.Lock()
		r.stuck = append(r.stuck, kind+": SetConfigThreadSafe still blocked after 2 s although the diagnostics have returned")
		r.mu.Unlock()
	}
}
func (r *reconfCollector) Success(context.Context, time.Time, time.Duration)    { r.poke("Success") }
func (r *reconfCollector) ErrFailure(context.Context, time.Time, time.Duration) { r.poke("ErrFailure") }
func (r *reconfCollector) ErrTimeout(context.Context, time.Time, time.Duration) { r.poke("ErrTimeout") }
func (r *reconfCollector) ErrBadRequest(context.Context, time.Time, time.Duration) {
	r.poke("ErrBadRequest")
}
func (r *reconfCollector) ErrInterrupt(context.Context, time.Time, time.Duration) {
	r.poke("ErrInterrupt")
}
func (r *reconfCollector) ErrConcurrencyLimitReject(context.Context, time.Time) {
	r.poke("ErrConcurrencyLimitReject")
}
func (r *reconfCollector) ErrShortCircuit(context.Context, time.Time) { r.poke("ErrShortCircuit") }

type reconfFallback struct{ r *reconfCollector }

func (f reconfFallback) Success(context.Context, time.Time, time.Duration) {
	f.r.poke("fallback Success")
}
func (f reconfFallback) ErrFailure(context.Context, time.Time, time.Duration) {
	f.r.poke("fallback ErrFailure")
}
func (f reconfFallback) ErrConcurrencyLimitReject(context.Context, time.Time) {
	f.r.poke("fallback Reject")
}

type reconfCircuit struct{ r *reconfCollector }

func (f reconfCircuit) Opened(context.Context, time.Time) { f.r.poke("Opened") }
func (f reconfCircuit) Closed(context.Context, time.Time) { f.r.poke("Closed") }

func callbackProbe(c *hc.Case, tags map[string]bool) {
	r := &reconfCollector{seen: map[string]bool{}}
	var cfg circuit.Config
	cfg.Execution.Timeout = 10 * time.Millisecond
	cfg.Metrics.Run = []circuit.RunMetrics{r}
	cfg.Metrics.Fallback = []circuit.FallbackMetrics{reconfFallback{r}}
	cfg.Metrics.Circuit = []circuit.Metrics{reconfCircuit{r}}
	cir := circuit.NewCircuitFromConfig("cfg-callbacks", cfg)
	r.cir = cir
	r.cfg = cir.Config()
	r.cfg.Execution.Timeout = 11 * time.Millisecond
	bg := context.Background()
	errRun := errors.New("run")
	finished := make(chan struct{})
	go func() {
		defer close(finished)
		_ = cir.Run(bg, func(context.Context) error { return nil })
		_ = cir.Execute(bg, func(context.Context) error { return errRun }, func(context.Context, error) error { return nil })
		_ = cir.Execute(bg, func(context.Context) error { return circuit.SimpleBadRequest{Err: errRun} }, func(context.Context, error) error { return errRun })
		_ = cir.Execute(bg, func(ctx context.Context) error { <-ctx.Done(); time.Sleep(time.Millisecond); return ctx.Err() }, func(context.Context, error) error { return errRun })
		ctx, cancel := context.WithCancel(bg)
		_ = cir.Run(ctx, func(context.Context) error { cancel(); return errRun })
		cancel()
		cir.OpenCircuit(bg)
		_ = cir.Run(bg, func(context.Context) error { return nil })
		cir.CloseCircuit(bg)
		lim := cir.Config()
		lim.Execution.MaxConcurrentRequests = 0
		lim.Fallback.MaxConcurrentRequests = 0
		r.cfg = lim
		cir.SetConfigThreadSafe(lim)
		_ = cir.Execute(bg, func(context.Context) error { return nil }, func(context.Context, error) error { return nil })
	}()
	select {
	case <-finished:
	case <-time.After(40 * time.Second):
		r.mu.Lock()
		r.stuck = append(r.stuck, "the calls themselves had not finished after 40 s")
		r.mu.Unlock()
	}
	r.mu.Lock()
	defer r.mu.Unlock()
	for _, s := range r.stuck {
		c.Viol = append(c.Viol, hc.Violation{Clause: "C11: SetConfigThreadSafe and every read-side diagnostic run concurrently with traffic of every outcome kind without deadlock", Detail: "diagnostics read from inside the metrics callback " + s + " while a SetConfigThreadSafe was under way", AtOp: len(c.Ops)})
	}
	for k := range r.seen {
		tags["callback-reconf:"+k] = true
	}
}

type kindRec struct{ kinds *[]string }

func (r kindRec) Success(context.Context, time.Time, time.Duration) {
	*r.kinds = append(*r.kinds, "KSuccess")
}
func (r kindRec) ErrFailure(context.Context, time.Time, time.Duration) {
	*r.kinds = append(*r.kinds, "KFailure")
}
func (r kindRec) ErrTimeout(context.Context, time.Time, time.Duration) {
	*r.kinds = append(*r.kinds, "KTimeout")
}
func (r kindRec) ErrBadRequest(context.Context, time.Time, time.Duration) {
	*r.kinds = append(*r.kinds, "KBadRequest")
}
func (r kindRec) ErrInterrupt(context.Context, time.Time, time.Duration) {
	*r.kinds = append(*r.kinds, "KInterrupt")
}
func (r kindRec) ErrConcurrencyLimitReject(context.Context, time.Time) {
	*r.kinds = append(*r.kinds, "KReject")
}
func (r kindRec) ErrShortCircuit(context.Context, time.Time) { *r.kinds = append(*r.kinds, "KShort") }

func cfgQueryCoq(o cfgOp) string {
	if o.K != "q" {
		return "DQRead 99"
	}
	switch o.Q {
	case "config":
		return "DQConfig"
	case "stream":
		return "DQStreamClock"
	case "interrupt":
		return "DQInterruptKind"
	}
	for i, q := range cfgQueries {
		if q == o.Q {
			return fmt.Sprintf("DQRead %d", i)
		}
	}
	return "DQRead 98"
}

func (cfgFamily) Emit(w io.Writer, f *hc.File) {
	fmt.Fprintln(w, "From CV Require Import Base.Prelude Seq.Logic Seq.Circuit Seq.Diag.")
	fmt.Fprintln(w, "Definition cases : list diag_case := [")
	for i, c := range f.Cases {
		sep := ";"
		if i == len(f.Cases)-1 {
			sep = ""
		}
		fmt.Fprintf(w, " (%d%%nat, %s)%s\n", c.ID, hc.List(c.Outs), sep)
	}
	fmt.Fprintln(w, "].")
	fmt.Fprintln(w, "Definition result := Eval vm_compute in diag_mismatches cases.")
	fmt.Fprintln(w, "Print result.")
}
