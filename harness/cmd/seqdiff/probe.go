package main

// Family "probe" (property C03, "however many callers compete"): an open circuit
// with the real hystrix closer, probed by callers some of which are DELAYED between
// reading the clock and reaching the gate -- the one thing call-granularity
// histories (family circ) cannot express.  The delay is real: the substitute
// TimeKeeper.Now hands the caller its reading and then blocks until released, so
// the caller arrives at the closer with an old stamp after later callers.
//
// The closer's gate is faststats.TimedCheck: the sequence of Check calls in gate
// arrival order, with their stamps, is replayed on the TimedCheck model
// (Seq/TimedCheck.v), and the property's own clause -- calls admitted in any time
// span shorter than SleepWindow number at most max(1, HalfOpenAttempts) -- is
// evaluated on the admissions with the clock value at which each one was admitted.

import (
	"context"
	"encoding/json"
	"fmt"
	"io"
	"math/rand"
	"sync"
	"time"

	"github.com/cep21/circuit/v4"
	"github.com/cep21/circuit/v4/closers/hystrix"

	"verifharness/internal/hc"
)

type probeParams struct {
	Sleep int64 `json:"sleep"`
	K     int64 `json:"k"`
}

type probeOp struct {
	K     string `json:"k"` // open tick fire call release
	D     int64  `json:"d,omitempty"`
	ID    int    `json:"id,omitempty"`
	Delay bool   `json:"delay,omitempty"` // call: block between the clock reading and the gate until released
}

type probeFamily struct{}

func init() { families["probe"] = probeFamily{} }

func probeCase(p probeParams, ops []probeOp) *hc.Case {
	c := &hc.Case{Params: hc.Raw(p)}
	for _, o := range ops {
		c.Ops = append(c.Ops, hc.Raw(o))
	}
	return c
}

func (probeFamily) Corpus(string) []*hc.Case {
	s := int64(10 * time.Second)
	sec := int64(time.Second)
	return []*hc.Case{
		// D3 (known finding): budget 2; A reads the clock at 100 and is overtaken by B (109); A exhausts the budget and
		// re-arms from ITS stamp (110), so 110 and 111 are admitted too: four admissions while the clock moves 2 s
		probeCase(probeParams{Sleep: s, K: 2}, []probeOp{{K: "tick", D: 90 * sec}, {K: "open"}, {K: "tick", D: 10 * sec}, {K: "fire"},
			{K: "call", ID: 0, Delay: true}, {K: "tick", D: 9 * sec}, {K: "call", ID: 1}, {K: "release", ID: 0}, {K: "fire"},
			{K: "call", ID: 2}, {K: "tick", D: sec}, {K: "call", ID: 3}, {K: "tick", D: sec}, {K: "call", ID: 4}}),
		// the same race with the default budget 1: the delayed caller finds the gate re-armed and is shed
		probeCase(probeParams{Sleep: s, K: 1}, []probeOp{{K: "tick", D: 90 * sec}, {K: "open"}, {K: "tick", D: 10 * sec}, {K: "fire"},
			{K: "call", ID: 0, Delay: true}, {K: "tick", D: 9 * sec}, {K: "call", ID: 1}, {K: "release", ID: 0}, {K: "fire"},
			{K: "call", ID: 2}, {K: "tick", D: sec}, {K: "call", ID: 3}}),
	}
}

func (probeFamily) Gen(r *rand.Rand, i int, tier string) *hc.Case {
	p := probeParams{Sleep: hc.Pick(r, int64(time.Second), int64(10*time.Second)), K: hc.Pick(r, int64(1), 1, 2, 2, 3, 0)}
	ops := []probeOp{{K: "tick", D: hc.Pick(r, int64(0), p.Sleep)}, {K: "open"}}
	id := 0
	var parked []int
	n := 8 + r.Intn(14)
	for len(ops) < n {
		switch x := r.Intn(10); {
		case x < 3:
			ops = append(ops, probeOp{K: "tick", D: hc.Pick(r, int64(1), p.Sleep/10, p.Sleep-1, p.Sleep, p.Sleep+1)})
		case x < 5:
			ops = append(ops, probeOp{K: "fire"})
		case x < 8:
			delay := r.Intn(3) == 0 && len(parked) < 2
			ops = append(ops, probeOp{K: "call", ID: id, Delay: delay})
			if delay {
				parked = append(parked, id)
			}
			id++
		default:
			if len(parked) > 0 {
				ops = append(ops, probeOp{K: "release", ID: parked[0]})
				parked = parked[1:]
			}
		}
	}
	for _, pid := range parked {
		ops = append(ops, probeOp{K: "release", ID: pid})
	}
	return probeCase(p, ops)
}

func (probeFamily) Exec(c *hc.Case) {
	var p probeParams
	must(json.Unmarshal(c.Params, &p))
	var mu sync.Mutex
	now := hc.T0
	// the goroutine that is to be delayed announces itself here; Now() blocks it after taking the reading
	var delayNext chan struct{}
	var readDone chan struct{}
	clk := func() time.Time {
		mu.Lock()
		v := now
		d, rd := delayNext, readDone
		delayNext, readDone = nil, nil
		mu.Unlock()
		if d != nil {
			close(rd)
			<-d
		}
		return v
	}
	type reg struct {
		d time.Duration
		f func()
		t *time.Timer
	}
	var regs []reg
	defer func() {
		mu.Lock()
		for _, r := range regs {
			r.t.Stop()
		}
		mu.Unlock()
	}()
	after := func(d time.Duration, f func()) *time.Timer {
		t := hc.LiveTimer() // a timer the library has stopped does not fire
		mu.Lock()
		regs = append(regs, reg{d, f, t})
		mu.Unlock()
		return t
	}
	var cfg circuit.Config
	cfg.General.TimeKeeper.Now = clk
	cfg.General.OpenToClosedFactory = hystrix.CloserFactory(hystrix.ConfigureCloser{SleepWindow: time.Duration(p.Sleep), HalfOpenAttempts: p.K, RequiredConcurrentSuccessful: 1000, AfterFunc: after})
	cfg.Execution.Timeout = -1
	cfg.Execution.MaxConcurrentRequests = -1
	cir := circuit.NewCircuitFromConfig("probe", cfg)
	type gateEv struct {
		stamp    int64 // the caller's own clock reading
		admitted bool
		at       int64 // clock value when the gate answered
		armed    *int64
	}
	var gate []gateEv // in gate arrival order
	releases := map[int]chan struct{}{}
	finished := map[int]chan struct{}{}
	tags := map[string]bool{}
	outOfOrder := false
	ranOf := map[int]*bool{}
	call := func(id int, delayed bool) {
		done := make(chan struct{})
		finished[id] = done
		ran := new(bool)
		ranOf[id] = ran
		var rd chan struct{}
		if delayed {
			mu.Lock()
			delayNext = make(chan struct{})
			readDone = make(chan struct{})
			releases[id], rd = delayNext, readDone
			mu.Unlock()
		}
		go func() {
			defer close(done)
			// the run function is entered iff the gate admitted the call
			_ = cir.Run(context.Background(), func(context.Context) error { *ran = true; return nil })
		}()
		if delayed {
			<-rd // the caller has its reading and is parked inside Now()
		} else {
			<-done
		}
	}
	nregs := func() int {
		mu.Lock()
		defer mu.Unlock()
		return len(regs)
	}
	arrived := func(id int, before int) {
		mu.Lock()
		ev := gateEv{admitted: *ranOf[id], at: int64(now.Sub(hc.T0))}
		if len(regs) > before {
			d := int64(regs[len(regs)-1].d)
			ev.armed = &d
		}
		gate = append(gate, ev)
		mu.Unlock()
	}
	stamps := map[int]int64{}
	order := []int{} // ids in gate arrival order
	for _, raw := range c.Ops {
		var o probeOp
		must(json.Unmarshal(raw, &o))
		switch o.K {
		case "tick":
			mu.Lock()
			now = now.Add(time.Duration(o.D))
			mu.Unlock()
		case "open":
			cir.OpenCircuit(context.Background())
		case "fire":
			mu.Lock()
			var f func()
			var t *time.Timer
			if len(regs) > 0 {
				f, t = regs[len(regs)-1].f, regs[len(regs)-1].t
			}
			mu.Unlock()
			if f != nil {
				hc.FireTimer(t, f)
			}
		case "call":
			mu.Lock()
			stamps[o.ID] = int64(now.Sub(hc.T0))
			mu.Unlock()
			b := nregs()
			call(o.ID, o.Delay)
			if !o.Delay {
				order = append(order, o.ID)
				arrived(o.ID, b)
			} else {
				tags["delayed_caller"] = true
			}
		case "release":
			if ch := releases[o.ID]; ch != nil {
				delete(releases, o.ID)
				b := nregs()
				close(ch)
				<-finished[o.ID]
				order = append(order, o.ID)
				arrived(o.ID, b)
				// did it arrive after a caller with a LATER stamp?
				for _, other := range order[:len(order)-1] {
					if stamps[other] > stamps[o.ID] {
						outOfOrder = true
					}
				}
			}
		}
	}
	// outputs: one per gate arrival, in arrival order, as the TimedCheck model's Check outputs
	for i, ev := range gate {
		ev.stamp = stamps[order[i]]
		gate[i] = ev
		armed := "None"
		if ev.armed != nil {
			armed = fmt.Sprintf("(Some %s)", hc.Zi(*ev.armed))
		}
		c.Outs = append(c.Outs, fmt.Sprintf("(%s, TOBool %s %s)", hc.Zi(ev.stamp), hc.B(ev.admitted), armed))
		if ev.admitted {
			tags["probe:admitted"] = true
		} else {
			tags["probe:shed"] = true
		}
	}
	// the property's clause on the admissions
	k := p.K
	if k < 1 {
		k = 1
	}
	var adm []int64
	for _, ev := range gate {
		if ev.admitted {
			adm = append(adm, ev.at)
		}
	}
	for i := int(k); i < len(adm); i++ {
		if adm[i]-adm[i-int(k)] < p.Sleep {
			c.Viol = append(c.Viol, hc.Violation{Clause: "C03: while it stays open, the calls admitted in any time span shorter than SleepWindow number at most max(1, HalfOpenAttempts), however many callers compete",
				Detail: fmt.Sprintf("%d calls admitted while the clock moved %v (SleepWindow %v, HalfOpenAttempts %d); admissions at %v", k+1, time.Duration(adm[i]-adm[i-int(k)]), time.Duration(p.Sleep), p.K, adm), AtOp: i})
			break
		}
	}
	// what survives a stalled caller (c03_budget_bounded_stall): with delta the longest stall in this history, any
	// max(1,k)+1 consecutive admissions lie at least SleepWindow - delta apart.  A violation of THIS is not the known
	// finding D3 (which it bounds) and is reported.
	delta := int64(0)
	for _, ev := range gate {
		if ev.at-ev.stamp > delta {
			delta = ev.at - ev.stamp
		}
	}
	for i := int(k); i < len(adm); i++ {
		if adm[i]-adm[i-int(k)] < p.Sleep-delta {
			c.Viol = append(c.Viol, hc.Violation{Clause: "C03: the calls admitted in any time span shorter than SleepWindow (less the longest stall of a caller between its clock reading and the gate) number at most max(1, HalfOpenAttempts)",
				Detail: fmt.Sprintf("%d calls admitted within %v although SleepWindow is %v and no caller was stalled for more than %v; admissions at %v", k+1, time.Duration(adm[i]-adm[i-int(k)]), time.Duration(p.Sleep), time.Duration(delta), adm), AtOp: i})
			break
		}
	}
	for _, ev := range gate {
		if ev.admitted && ev.stamp < ev.at {
			tags["known:D3"] = true // a call was admitted on a clock reading older than the moment it reached the gate
		}
	}
	if outOfOrder {
		tags["stamps:out_of_order"] = true
	}
	for t := range tags {
		c.Tags = append(c.Tags, t)
	}
	c.Tags = append(c.Tags, fmt.Sprintf("budget:%d", p.K))
}

// The model sees: SleepStart at the opening, the timer firings, and the Check calls in gate-arrival order.
func (probeFamily) Emit(w io.Writer, f *hc.File) {
	fmt.Fprintln(w, "From CV Require Import Base.Prelude Seq.TimedCheck Seq.CaseCheck.")
	fmt.Fprintf(w, "Definition t0 : Z := %s.\n", hc.ZofTime(hc.T0))
	fmt.Fprintln(w, "Definition cases : list tc_case := [")
	for i, c := range f.Cases {
		var p probeParams
		must(json.Unmarshal(c.Params, &p))
		// rebuild the model's op list: walk the ops, placing each call's Check where it reached the gate
		var ops, outs []string
		clock := int64(0)
		type pend struct{ stamp int64 }
		pending := map[int]int64{}
		nreg := 0 // timer registrations so far (SleepStart and exhausting checks)
		gi := 0
		emitCheck := func() {
			if gi >= len(c.Outs) {
				return
			}
			var stamp int64
			var rest string
			// c.Outs[gi] = "(stamp, TOBool b armed)"
			fmt.Sscanf(c.Outs[gi], "(%d,", &stamp)
			rest = c.Outs[gi][indexAfterComma(c.Outs[gi]):]
			rest = rest[:len(rest)-1]
			ops = append(ops, fmt.Sprintf("TCheck (t0 + %s)", hc.Zi(stamp)))
			outs = append(outs, rest)
			if containsSome(rest) {
				nreg++
			}
			gi++
		}
		for _, raw := range c.Ops {
			var o probeOp
			must(json.Unmarshal(raw, &o))
			switch o.K {
			case "tick":
				clock += o.D
			case "open":
				ops = append(ops, fmt.Sprintf("TSleepStart (t0 + %s)", hc.Zi(clock)))
				outs = append(outs, "TOArmed "+hc.Zi(p.Sleep))
				nreg++
			case "fire":
				if nreg > 0 {
					ops = append(ops, fmt.Sprintf("TFire %d%%nat", nreg-1))
					outs = append(outs, "TONone")
				}
			case "call":
				if o.Delay {
					pending[o.ID] = clock
				} else {
					emitCheck()
				}
			case "release":
				if _, ok := pending[o.ID]; ok {
					delete(pending, o.ID)
					emitCheck()
				}
			}
		}
		sep := ";"
		if i == len(f.Cases)-1 {
			sep = ""
		}
		fmt.Fprintf(w, " (%d%%nat, %s, %s, %s,\n   %s)%s\n", c.ID, hc.Zi(p.Sleep), hc.Zi(p.K), hc.List(ops), hc.List(outs), sep)
	}
	fmt.Fprintln(w, "].")
	fmt.Fprintln(w, "Definition result := Eval vm_compute in tc_mismatches cases.")
	fmt.Fprintln(w, "Print result.")
}

func indexAfterComma(s string) int {
	for i := 0; i < len(s); i++ {
		if s[i] == ',' {
			return i + 2
		}
	}
	return 0
}

func containsSome(s string) bool {
	for i := 0; i+5 <= len(s); i++ {
		if s[i:i+5] == "(Some" {
			return true
		}
	}
	return false
}
