package main

// Family "gow": Circuit.Go driven through forced orderings of completion and
// context end (property C18).  Real goroutines, no scheduler: the harness forces
// "function finishes first", "context ends first (the function is still
// blocked)" and "both already happened when the select runs", for error, nil and
// panic outcomes, for run functions and fallbacks, nil and non-nil circuits, with
// and without GoLostErrors; the observed (result, GoLostErrors calls) must belong
// to the set the level-2 model allows for that ordering.

import (
	"context"
	"encoding/json"
	"errors"
	"fmt"
	"io"
	"math/rand"
	"runtime"
	"strings"
	"sync"
	"time"

	"github.com/cep21/circuit/v4"

	"verifharness/internal/hc"
)

type gowParams struct {
	Order   string `json:"order"`   // finish_first ctx_first both_ready
	Outcome string `json:"outcome"` // nil err panic
	K       int    `json:"k"`
	Lost    bool   `json:"lost"`
	Via     string `json:"via"`     // run fallback
	Circuit string `json:"circuit"` // normal nil
	CtxEnd  string `json:"ctx_end"` // cancel timeout
}

type gowFamily struct{}

func init() { families["gow"] = gowFamily{} }

func gowCase(p gowParams) *hc.Case {
	c := &hc.Case{Params: hc.Raw(p)}
	c.Ops = append(c.Ops, hc.Raw(p))
	return c
}

func (gowFamily) Corpus(string) []*hc.Case {
	var cs []*hc.Case
	for _, ord := range []string{"finish_first", "ctx_first", "both_ready"} {
		for _, out := range []string{"nil", "err", "panic"} {
			for _, lost := range []bool{true, false} {
				cs = append(cs, gowCase(gowParams{Order: ord, Outcome: out, K: 1, Lost: lost, Via: "run", Circuit: "normal", CtxEnd: "cancel"}))
			}
		}
	}
	cs = append(cs, gowCase(gowParams{Order: "ctx_first", Outcome: "err", K: 2, Lost: true, Via: "run", Circuit: "normal", CtxEnd: "timeout"}))
	cs = append(cs, gowCase(gowParams{Order: "ctx_first", Outcome: "panic", K: 2, Lost: false, Via: "run", Circuit: "nil", CtxEnd: "cancel"}))
	cs = append(cs, gowCase(gowParams{Order: "ctx_first", Outcome: "err", K: 3, Lost: true, Via: "fallback", Circuit: "normal", CtxEnd: "cancel"}))
	cs = append(cs, gowCase(gowParams{Order: "finish_first", Outcome: "panic", K: 3, Lost: true, Via: "fallback", Circuit: "normal", CtxEnd: "cancel"}))
	for _, out := range []string{"nil", "err", "panic"} {
		for _, lost := range []bool{true, false} {
			cs = append(cs, gowCase(gowParams{Order: "finish_then_cancel", Outcome: out, K: 1, Lost: lost, Via: "run", Circuit: "normal", CtxEnd: "cancel"}))
		}
	}
	return cs
}

func (gowFamily) Gen(r *rand.Rand, i int, tier string) *hc.Case {
	p := gowParams{Order: hc.Pick(r, "finish_first", "ctx_first", "ctx_first", "both_ready"), Outcome: hc.Pick(r, "nil", "err", "err", "panic"),
		K: r.Intn(4), Lost: r.Intn(3) != 0, Via: hc.Pick(r, "run", "run", "fallback"), Circuit: hc.Pick(r, "normal", "normal", "normal", "nil"), CtxEnd: hc.Pick(r, "cancel", "cancel", "cancel", "timeout")}
	if p.Circuit == "nil" {
		p.Lost, p.CtxEnd = false, "cancel"
		if p.Via == "fallback" {
			p.Via = "run" // a nil circuit has no fallback stage
		}
	}
	if p.Via == "fallback" && p.Order == "both_ready" {
		p.Order = "ctx_first"
	}
	if p.Circuit == "normal" && p.Via == "run" && p.CtxEnd == "cancel" && p.Order == "finish_first" && r.Intn(2) == 0 {
		// the function's result is taken first; the caller's context ends a moment later, while the circuit is
		// classifying that result (its clock hook ends it): still the function's own outcome, surfaced once
		p.Order = "finish_then_cancel"
	}
	if p.CtxEnd == "timeout" && (p.Order != "ctx_first" || p.Via == "fallback") {
		// the execution timeout bounds the run step only; the fallback runs under the caller's own context
		p.CtxEnd = "cancel"
	}
	return gowCase(p)
}

var gowErrs = []error{errors.New("e0"), errors.New("e1"), errors.New("e2"), errors.New("e3")}

// panic values of several dynamic types, the last a genuine runtime.Error (what a nil-map write raises)
var gowPanics = []interface{}{"p0", errors.New("p1"), pstruct{2, 2}, func() (v interface{}) {
	defer func() { v = recover() }()
	var m map[int]int
	m[0] = 1
	return nil
}()}
var gowRunFails = errors.New("run failed before the fallback")

func (gowFamily) Exec(c *hc.Case) {
	var p gowParams
	must(json.Unmarshal(c.Params, &p))
	baseline := runtime.NumGoroutine()
	var mu sync.Mutex
	var sink []string
	outcomeName := func(err error, pv interface{}) string {
		if pv != nil {
			for i, x := range gowPanics {
				if x == pv {
					return fmt.Sprintf("OutPanic %d", i)
				}
			}
			return "OutPanic 99"
		}
		if err == nil {
			return "OutNil"
		}
		for i, x := range gowErrs {
			if x == err {
				return fmt.Sprintf("OutErr %d", i)
			}
		}
		return "OutErr 99"
	}
	var cir *circuit.Circuit
	lateCancel := func() {}
	if p.Circuit == "normal" {
		var cfg circuit.Config
		cfg.Execution.Timeout = -1
		if p.CtxEnd == "timeout" {
			cfg.Execution.Timeout = 20 * time.Millisecond
		}
		if p.Order == "finish_then_cancel" {
			reads := 0
			cfg.General.TimeKeeper.Now = func() time.Time {
				reads++
				if reads >= 2 { // the first reading is the call's start; the next ones follow the function's return
					lateCancel()
				}
				return time.Now()
			}
		}
		if p.Lost {
			cfg.General.GoLostErrors = func(err error, pv interface{}) {
				mu.Lock()
				sink = append(sink, outcomeName(err, pv))
				mu.Unlock()
			}
		}
		if p.Lost && p.K%3 == 0 {
			// GoLostErrors configured in TWO layers (the circuit's own config and a manager default): the circuit's own
			// wins, so an outcome is still handed over once -- to it
			m := &circuit.Manager{DefaultCircuitProperties: []circuit.CommandPropertiesConstructor{func(string) circuit.Config {
				var d circuit.Config
				d.General.GoLostErrors = func(err error, pv interface{}) {
					mu.Lock()
					sink = append(sink, outcomeName(err, pv))
					mu.Unlock()
				}
				return d
			}}}
			cir = m.MustCreateCircuit("gow", cfg)
		} else {
			cir = circuit.NewCircuitFromConfig("gow", cfg)
		}
	}
	// the caller's context carries a cancellation CAUSE: what Go reports is still the context's error
	ctx0, cancelCause := context.WithCancelCause(context.Background())
	cancel := func() { cancelCause(errors.New("the client went away")) }
	lateCancel = cancel
	var ctx context.Context = ctx0
	defer cancel()
	if p.CtxEnd == "timeout" {
		// a caller that has its own, much later deadline: the execution timeout must still end the call
		var c2 context.CancelFunc
		ctx, c2 = context.WithTimeout(ctx, time.Hour)
		defer c2()
	}
	if (p.Order == "finish_first" || p.Order == "both_ready" || p.Order == "finish_then_cancel") && p.K%2 == 0 {
		// make sure the function really has finished (result or panic already handed over) before Go's select
		// looks at anything: Done() is the first thing the select evaluates
		ctx = slowDoneCtx{ctx}
	}
	release := make(chan struct{})
	entered := make(chan struct{}, 1)
	finish := func() error {
		switch p.Outcome {
		case "err":
			return gowErrs[p.K%4]
		case "panic":
			panic(gowPanics[p.K%4])
		}
		return nil
	}
	body := func() error {
		entered <- struct{}{}
		if p.Order == "ctx_first" {
			<-release
		}
		return finish()
	}
	var runFn func(context.Context) error
	var fbFn func(context.Context, error) error
	var fbGot error
	var gotCtx context.Context // what the wrapped function was handed
	if p.Via == "run" {
		runFn = func(rctx context.Context) error { gotCtx = rctx; return body() }
	} else {
		runFn = func(context.Context) error { return gowRunFails }
		fbFn = func(fctx context.Context, err error) error { fbGot, gotCtx = err, fctx; return body() }
	}
	if p.Order == "both_ready" {
		cancel()
	}
	type res struct {
		err error
		pv  interface{}
	}
	done := make(chan res, 1)
	go func() {
		var r res
		func() {
			defer func() { r.pv = recover() }()
			r.err = cir.Go(ctx, runFn, fbFn)
		}()
		done <- r
	}()
	var got res
	prompt := true
	switch p.Order {
	case "ctx_first":
		<-entered
		if p.CtxEnd == "cancel" {
			cancel()
		}
		select {
		case got = <-done:
		case <-time.After(3 * time.Second):
			prompt = false
			close(release)
			select {
			case got = <-done:
			case <-time.After(5 * time.Second):
				c.Viol = append(c.Viol, hc.Violation{Clause: "C18: Go returns as soon as the run function finishes, or as soon as the caller's context or the execution timeout ends", Detail: "Go had not returned 5 s after its function was released", AtOp: 0})
				c.Outs = []string{"(CROutcome (OutErr 97), [])"}
				c.Tags = []string{"order:" + p.Order, "hung"}
				return
			}
		}
		if prompt {
			close(release)
		}
	default:
		select {
		case got = <-done:
		case <-time.After(5 * time.Second):
			prompt = false // Go has not returned although its function finished (or its context ended) at once
			c.Viol = append(c.Viol, hc.Violation{Clause: "C18: Go returns as soon as the run function finishes, or as soon as the caller's context or the execution timeout ends", Detail: "Go had not returned 5 s after its function finished", AtOp: 0})
			c.Outs = []string{"(CROutcome (OutErr 97), [])"}
			c.Tags = []string{"order:" + p.Order, "hung"}
			return
		}
	}
	// let the helpers finish
	wantSink := 0
	ctxErr := got.pv == nil && (got.err == context.Canceled || got.err == context.DeadlineExceeded)
	if p.Lost && ctxErr {
		wantSink = 1
	}
	for i := 0; i < 400; i++ {
		mu.Lock()
		n := len(sink)
		mu.Unlock()
		if n >= wantSink && runtime.NumGoroutine() <= baseline {
			break
		}
		time.Sleep(5 * time.Millisecond)
	}
	time.Sleep(2 * time.Millisecond)
	mu.Lock()
	sinkNow := append([]string{}, sink...)
	mu.Unlock()
	result := "CROutcome (" + outcomeName(got.err, got.pv) + ")"
	if ctxErr {
		result = "CRCtxErr"
	}
	if p.Via == "fallback" && got.pv == nil && got.err == gowRunFails {
		result = "CROutcome (OutErr 98)" // the fallback's result was dropped
	}
	var sl []string
	for _, s := range sinkNow {
		sl = append(sl, "("+s+")")
	}
	c.Outs = []string{fmt.Sprintf("(%s, [%s])", result, strings.Join(sl, "; "))}
	// ---- the property's own clauses
	if p.Order == "finish_first" && p.Outcome == "panic" && !strings.HasPrefix(outcomeName(got.err, got.pv), "OutPanic") {
		c.Viol = append(c.Viol, hc.Violation{Clause: "C10: a panic raised by the run function or the fallback reaches the caller of Go with the same panic value (the call's context has not ended)", Detail: fmt.Sprintf("Go returned %s", result), AtOp: 0})
	}
	if !prompt {
		c.Viol = append(c.Viol, hc.Violation{Clause: "C18: Go returns as soon as the caller's context or the execution timeout ends, even if the run function never returns", Detail: "Go was still blocked 3s after the context ended", AtOp: 0})
	}
	surf := len(sinkNow)
	if !ctxErr {
		surf++
	}
	if surf > 1 {
		c.Viol = append(c.Viol, hc.Violation{Clause: "C18: the eventual outcome of every started function is surfaced at most once", Detail: fmt.Sprintf("result %s, GoLostErrors %v", result, sinkNow), AtOp: 0})
	}
	if p.Lost && surf != 1 {
		c.Viol = append(c.Viol, hc.Violation{Clause: "C18: the eventual outcome is surfaced exactly once whenever GoLostErrors is configured", Detail: fmt.Sprintf("result %s, GoLostErrors %v", result, sinkNow), AtOp: 0})
	}
	if p.Order == "ctx_first" && p.CtxEnd == "timeout" && got.err != context.DeadlineExceeded {
		c.Viol = append(c.Viol, hc.Violation{Clause: "C18: when the execution timeout ends first the run step ends with that context's error", Detail: fmt.Sprintf("got %v", got.err), AtOp: 0})
	}
	if p.Via == "fallback" && gotCtx != ctx {
		c.Viol = append(c.Viol, hc.Violation{Clause: "C07: the fallback always receives the caller's original context, never the timed-out one", Detail: fmt.Sprintf("through Go (order %s, the caller's context ended by %s): the fallback was handed a different context value", p.Order, p.CtxEnd), AtOp: 0})
	}
	if p.Via == "run" && p.CtxEnd != "timeout" && gotCtx != ctx {
		c.Viol = append(c.Viol, hc.Violation{Clause: "C07: with Timeout <= 0 the run function receives the caller's context itself", Detail: fmt.Sprintf("through Go on a %s circuit without an execution timeout (order %s): the run function was handed a different context value", p.Circuit, p.Order), AtOp: 0})
	}
	if p.Via == "fallback" && fbGot != gowRunFails {
		c.Viol = append(c.Viol, hc.Violation{Clause: "C18: the normal fallback rules apply", Detail: fmt.Sprintf("fallback received %v", fbGot), AtOp: 0})
	}
	if n := runtime.NumGoroutine(); n > baseline {
		c.Viol = append(c.Viol, hc.Violation{Clause: "C18: no helper goroutine outlives the function it wraps", Detail: fmt.Sprintf("%d goroutines, baseline %d", n, baseline), AtOp: 0})
	}
	if p.Circuit == "normal" && p.K%4 == 1 {
		staleResultProbe(c)
	}
	if p.Circuit == "normal" && p.K%4 == 2 {
		reconfigProbe(c)
	}
	if p.Circuit == "normal" && p.K%4 == 3 {
		fallbackCtxProbe(c)
	}
	if p.Circuit == "normal" && p.K%4 == 0 {
		goexitProbe(c)
	}
	if c.ID == 1 {
		slowLostErrorsProbe(c)
		for k := 0; k < 8 && len(c.Viol) == 0; k++ { // who gets a value that two parties wait for is a coin toss
			fallbackPanicAfterAbandonedRunProbe(c)
		}
	}
	if c.ID == 0 && hc.Long {
		lateOutcomeProbe(c)
	}
	c.Tags = []string{"order:" + p.Order, "outcome:" + p.Outcome, "via:" + p.Via, "circuit:" + p.Circuit, fmt.Sprintf("lost:%v", p.Lost), "ctx_end:" + p.CtxEnd}
	if ctxErr {
		c.Tags = append(c.Tags, "result:ctx_error")
	}
}

func (gowFamily) Emit(w io.Writer, f *hc.File) {
	fmt.Fprintln(w, "From CV Require Import Conc.Sched Conc.GoWrapper.")
	fmt.Fprintln(w, "Definition cases : list gow_case := [")
	for i, c := range f.Cases {
		var p gowParams
		must(json.Unmarshal(c.Params, &p))
		ord := map[string]string{"finish_first": "FinishFirst", "finish_then_cancel": "FinishFirst", "ctx_first": "CtxFirst", "both_ready": "BothReady"}[p.Order]
		out := map[string]string{"nil": "OutNil", "err": fmt.Sprintf("(OutErr %d)", p.K%4), "panic": fmt.Sprintf("(OutPanic %d)", p.K%4)}[p.Outcome]
		sep := ";"
		if i == len(f.Cases)-1 {
			sep = ""
		}
		obs := "(CROutcome (OutErr 96), [])" // a case abandoned by the watchdog: matches nothing the model allows
		if len(c.Outs) > 0 {
			obs = c.Outs[0]
		}
		fmt.Fprintf(w, " (%d%%nat, %s, %s, %s, %s)%s\n", c.ID, ord, out, hc.B(p.Lost), obs, sep)
	}
	fmt.Fprintln(w, "].")
	fmt.Fprintln(w, "Definition result := Eval vm_compute in gow_mismatches cases.")
	fmt.Fprintln(w, "Print result.")
}

// slowDoneCtx delays the first look at Done(), nothing else.
type slowDoneCtx struct{ context.Context }

func (s slowDoneCtx) Done() <-chan struct{} {
	time.Sleep(2 * time.Millisecond)
	return s.Context.Done()
}

// staleResultProbe: a run function that overstays the execution timeout and finishes LATE, while the fallback of the
// same call is still working (no GoLostErrors): what Go returns is the fallback's own result, not the abandoned
// function's late one.
func staleResultProbe(c *hc.Case) {
	var cfg circuit.Config
	cfg.Execution.Timeout = 20 * time.Millisecond
	cir := circuit.NewCircuitFromConfig("gow-late", cfg)
	late, own := errors.New("late result of the abandoned run"), errors.New("the fallback's own result")
	release := make(chan struct{})
	done := make(chan error, 1)
	go func() {
		done <- cir.Go(context.Background(), func(context.Context) error {
			<-release
			return late
		}, func(context.Context, error) error {
			close(release) // the abandoned run function finishes now, while this fallback is still at work
			time.Sleep(30 * time.Millisecond)
			return own
		})
	}()
	select {
	case got := <-done:
		if got != own {
			c.Viol = append(c.Viol, hc.Violation{Clause: "C06: when the run step fails and a fallback is supplied and enabled, Execute returns exactly the fallback's result", Detail: fmt.Sprintf("Go returned %v while its fallback was returning %v (the run function had timed out and finished late)", got, own), AtOp: 0})
			c.Viol = append(c.Viol, hc.Violation{Clause: "C18: the eventual outcome of every started run function or fallback is surfaced at most once, as Go's own result", Detail: fmt.Sprintf("Go returned %v, the late result of the abandoned run function, instead of its fallback's %v", got, own), AtOp: 0})
		}
	case <-time.After(3 * time.Second):
		c.Viol = append(c.Viol, hc.Violation{Clause: "C18: Go returns as soon as the run function finishes, or as soon as the caller's context or the execution timeout ends", Detail: "Go with a timed-out run function and a 30 ms fallback had not returned after 3 s", AtOp: 0})
	}
}

// reconfigProbe: an execution timeout switched ON (SetConfigThreadSafe, complete) while a Go call without one is being
// admitted, the caller's context being one that can never end.  Whether this call is bounded is the library's choice of
// reading point -- the run function looks: if its context carries a deadline, the execution timeout is armed for this
// call, and Go returns when it ends although the function never does.
func reconfigProbe(c *hc.Case) {
	var cir *circuit.Circuit
	var once sync.Once
	var cfg circuit.Config
	cfg.Execution.Timeout = -1
	cfg.General.TimeKeeper.Now = func() time.Time {
		once.Do(func() {
			d := make(chan struct{})
			go func() {
				defer close(d)
				n := cir.Config()
				n.Execution.Timeout = 40 * time.Millisecond
				cir.SetConfigThreadSafe(n)
			}()
			<-d
		})
		return time.Now()
	}
	cir = circuit.NewCircuitFromConfig("gow-reconf", cfg)
	release := make(chan struct{})
	armed := make(chan bool, 1)
	done := make(chan error, 1)
	go func() {
		done <- cir.Go(context.Background(), func(ctx context.Context) error {
			_, has := ctx.Deadline()
			armed <- has
			<-release
			return nil
		}, nil)
	}()
	var has bool
	select {
	case has = <-armed:
	case <-time.After(5 * time.Second):
		close(release)
		return // never ran (rejected): nothing to observe
	}
	if !has {
		close(release)
		<-done
		return
	}
	select {
	case err := <-done:
		if err != context.DeadlineExceeded {
			c.Viol = append(c.Viol, hc.Violation{Clause: "C18: when the execution timeout ends first the run step ends with that context's error", Detail: fmt.Sprintf("timeout switched on during admission; got %v", err), AtOp: 0})
		}
		close(release)
	case <-time.After(3 * time.Second):
		c.Viol = append(c.Viol, hc.Violation{Clause: "C18: Go returns as soon as the caller's context or the execution timeout ends, even if the run function never returns", Detail: "a 40 ms execution timeout, switched on while the call was being admitted, was armed for the call (its context has the deadline), and Go was still blocked 3 s later", AtOp: 0})
		close(release)
		<-done
	}
}

// fallbackCtxProbe: the fallback STARTS when the caller's context is already done (the run function ended it and
// failed), or when the execution timeout has ended the run step: what it is handed is the caller's context, the very
// value, through Go as through Execute.
func fallbackCtxProbe(c *hc.Case) {
	type key struct{}
	for _, entry := range []string{"go", "execute"} {
		for _, how := range []string{"caller-cancelled", "run-timed-out"} {
			var cfg circuit.Config
			cfg.Execution.Timeout = -1
			if how == "run-timed-out" {
				cfg.Execution.Timeout = 10 * time.Millisecond
			}
			cir := circuit.NewCircuitFromConfig("gow-fbctx", cfg)
			base := context.WithValue(context.Background(), key{}, entry)
			ctx, cancel := context.WithCancel(base)
			var got context.Context
			called := make(chan struct{})
			runFn := func(rctx context.Context) error {
				if how == "caller-cancelled" {
					cancel()
				} else {
					<-rctx.Done()
				}
				return gowRunFails
			}
			fbFn := func(fctx context.Context, _ error) error {
				got = fctx
				close(called)
				return nil
			}
			done := make(chan struct{})
			go func() {
				defer close(done)
				defer func() { _ = recover() }()
				if entry == "go" {
					_ = cir.Go(ctx, runFn, fbFn)
				} else {
					_ = cir.Execute(ctx, runFn, fbFn)
				}
			}()
			select {
			case <-called:
				if got != ctx {
					same := got != nil && got.Value(key{}) == entry
					c.Viol = append(c.Viol, hc.Violation{Clause: "C07: the fallback always receives the caller's original context, never the timed-out one",
						Detail: fmt.Sprintf("entry %s, fallback started after %s: it was handed a different context value (carrying the caller's values: %v, Err() = %v while the caller's Err() = %v)", entry, how, same, got.Err(), ctx.Err()), AtOp: 0})
				}
			case <-time.After(3 * time.Second):
				// the fallback never started: not this probe's business
			}
			select {
			case <-done:
			case <-time.After(3 * time.Second):
			}
			cancel()
		}
	}
}

// goexitProbe: a function given to Go that never RETURNS because it ends its goroutine (runtime.Goexit -- what
// t.Fatal and friends do).  It has not returned nil, so Go does not return nil on its behalf: Go waits for the
// execution timeout like for any function that does not come back, and reports that.
func goexitProbe(c *hc.Case) {
	for _, where := range []string{"run", "fallback"} {
		var cfg circuit.Config
		cfg.Execution.Timeout = 30 * time.Millisecond
		cir := circuit.NewCircuitFromConfig("gow-goexit", cfg)
		ctx, cancel := context.WithTimeout(context.Background(), 300*time.Millisecond)
		runFn := func(context.Context) error {
			if where == "run" {
				runtime.Goexit()
			}
			return gowRunFails
		}
		fbFn := func(context.Context, error) error {
			runtime.Goexit()
			return nil
		}
		type res struct {
			err error
			pv  interface{}
		}
		done := make(chan res, 1)
		go func() {
			var r res
			func() {
				defer func() { r.pv = recover() }()
				r.err = cir.Go(ctx, runFn, fbFn)
			}()
			done <- r
		}()
		select {
		case r := <-done:
			if r.pv == nil && r.err == nil && where == "run" {
				c.Viol = append(c.Viol, hc.Violation{Clause: "C06: Execute returns nil exactly when the run function returned nil (or was nil) or an invoked fallback returned nil", Detail: "through Go, the run function ended its goroutine with runtime.Goexit (it never returned, and its fallback never returns either): Go returned nil", AtOp: 0})
			}
			if r.pv == nil && r.err == nil && where == "fallback" {
				c.Viol = append(c.Viol, hc.Violation{Clause: "C06: Execute returns nil exactly when the run function returned nil (or was nil) or an invoked fallback returned nil", Detail: "through Go, the run function failed and the fallback ended its goroutine with runtime.Goexit (it never returned): Go returned nil", AtOp: 0})
			}
		case <-time.After(5 * time.Second):
			c.Viol = append(c.Viol, hc.Violation{Clause: "C18: Go returns as soon as the run function finishes, or as soon as the caller's context or the execution timeout ends", Detail: "a function that ends its goroutine with runtime.Goexit: Go had not returned 5 s after both the execution timeout and the caller's deadline", AtOp: 0})
		}
		cancel()
	}
}

// lateOutcomeProbe (-long only): the outcome of an abandoned function is surfaced through GoLostErrors however late
// it comes -- here 33 s after Go gave up on it.
func lateOutcomeProbe(c *hc.Case) {
	var mu sync.Mutex
	var got []error
	var cfg circuit.Config
	cfg.Execution.Timeout = 20 * time.Millisecond
	cfg.General.GoLostErrors = func(err error, _ interface{}) {
		mu.Lock()
		got = append(got, err)
		mu.Unlock()
	}
	cir := circuit.NewCircuitFromConfig("gow-late-outcome", cfg)
	late := errors.New("33 s late")
	release := make(chan struct{})
	_ = cir.Go(context.Background(), func(context.Context) error { <-release; return late }, nil)
	time.Sleep(33 * time.Second)
	close(release)
	for i := 0; i < 300; i++ {
		mu.Lock()
		n := len(got)
		mu.Unlock()
		if n > 0 {
			break
		}
		time.Sleep(10 * time.Millisecond)
	}
	mu.Lock()
	defer mu.Unlock()
	if len(got) != 1 || got[0] != late {
		c.Viol = append(c.Viol, hc.Violation{Clause: "C18: the eventual outcome is surfaced exactly once whenever GoLostErrors is configured", Detail: fmt.Sprintf("a function abandoned at its 20 ms timeout returned its error 33 s later: GoLostErrors received %v", got), AtOp: 0})
	}
}

// slowLostErrorsProbe: a GoLostErrors handler that is slow (here: parked) does not hold up OTHER Go calls of the
// circuit whose timeout ends meanwhile.
func slowLostErrorsProbe(c *hc.Case) {
	parked := make(chan struct{}, 4)
	unpark := make(chan struct{})
	var cfg circuit.Config
	cfg.Execution.Timeout = 20 * time.Millisecond
	cfg.General.GoLostErrors = func(error, interface{}) {
		parked <- struct{}{}
		<-unpark
	}
	cir := circuit.NewCircuitFromConfig("gow-slow-handler", cfg)
	defer close(unpark)
	_ = cir.Go(context.Background(), func(context.Context) error { time.Sleep(40 * time.Millisecond); return gowRunFails }, nil)
	select {
	case <-parked:
	case <-time.After(3 * time.Second):
		return // the handler was never called: the exactly-once clauses report that
	}
	release := make(chan struct{})
	defer close(release)
	done := make(chan error, 1)
	go func() {
		done <- cir.Go(context.Background(), func(context.Context) error { <-release; return nil }, nil)
	}()
	select {
	case <-done:
	case <-time.After(3 * time.Second):
		c.Viol = append(c.Viol, hc.Violation{Clause: "C18: Go returns as soon as the caller's context or the execution timeout ends, even if the run function never returns", Detail: "while the GoLostErrors handler of an EARLIER call was still running, a second Go call (20 ms timeout, function not returning) was still blocked after 3 s", AtOp: 0})
	}
}

// fallbackPanicAfterAbandonedRunProbe: the run function outlives the timeout and is abandoned (a lost-errors waiter
// is parked for it); the fallback then panics while the caller's context is alive: that panic, the very value,
// reaches Go's caller.
func fallbackPanicAfterAbandonedRunProbe(c *hc.Case) {
	var cfg circuit.Config
	cfg.Execution.Timeout = 20 * time.Millisecond
	cfg.General.GoLostErrors = func(error, interface{}) {}
	cfg.Metrics.Run = []circuit.RunMetrics{pauseOnTimeout{}} // lets whatever was started for the abandoned function settle before the fallback begins
	cir := circuit.NewCircuitFromConfig("gow-fb-panic", cfg)
	release := make(chan struct{})
	defer close(release)
	val := &pstruct{7, 7}
	type res struct {
		err error
		pv  interface{}
	}
	done := make(chan res, 1)
	go func() {
		var r res
		func() {
			defer func() { r.pv = recover() }()
			r.err = cir.Go(context.Background(), func(context.Context) error { <-release; return nil },
				func(context.Context, error) error { time.Sleep(15 * time.Millisecond); panic(val) })
		}()
		done <- r
	}()
	select {
	case r := <-done:
		if r.pv != interface{}(val) {
			c.Viol = append(c.Viol, hc.Violation{Clause: "C10: a panic raised by the run function or the fallback reaches the caller of Go with the same panic value (the call's context has not ended)", Detail: fmt.Sprintf("run function abandoned at its timeout (GoLostErrors configured), fallback panicked with %p: Go returned err=%v panic=%v", val, r.err, r.pv), AtOp: 0})
		}
	case <-time.After(3 * time.Second):
		c.Viol = append(c.Viol, hc.Violation{Clause: "C10: a panic raised by the run function or the fallback reaches the caller of Go with the same panic value (the call's context has not ended)", Detail: "run function abandoned at its timeout (GoLostErrors configured), fallback panicked: Go had neither returned nor panicked 3 s later", AtOp: 0})
	}
}

// pauseOnTimeout is a run collector that takes 10 ms over a timeout report.
type pauseOnTimeout struct{ inertRun }

func (pauseOnTimeout) ErrTimeout(context.Context, time.Time, time.Duration) {
	time.Sleep(10 * time.Millisecond)
}
