package main

// Family "logic": hystrix.Opener, simplelogic.ConsecutiveErrOpener and hystrix.Closer driven
// directly through the callbacks a circuit makes on them -- run events of all seven kinds,
// Opened/Closed, ShouldOpen/Prevent, Allow/ShouldClose -- in any order, with times that may
// move back, interleaved with LIVE reconfiguration (their SetConfigThreadSafe) and with the
// closer's timer callbacks fired on demand.  The model is Seq/Logic.v (what the circuit model
// is built from) plus the three setters of Seq/LogicCase.v.  Properties C02, C03, C11.

import (
	"context"
	"encoding/json"
	"fmt"
	"io"
	"math/rand"
	"time"

	"github.com/cep21/circuit/v4"
	"github.com/cep21/circuit/v4/closers/hystrix"
	"github.com/cep21/circuit/v4/closers/simplelogic"

	"verifharness/internal/hc"
)

type logicParams struct {
	Opener string `json:"opener"` // hystrix consec
	N      int    `json:"n"`
	Dur    int64  `json:"dur"`
	Pct    int64  `json:"pct"`
	Vol    int64  `json:"vol"`
	Thr    int64  `json:"thr"`
	Sleep  int64  `json:"sleep"`
	Half   int64  `json:"half"`
	Req    int64  `json:"req"`
}

type logicOp struct {
	K    string `json:"k"` // run circ shouldopen prevent allow shouldclose fire setopener setthr setcloser
	Kind string `json:"kind,omitempty"`
	T    int64  `json:"t,omitempty"` // ns after T0
	A    int64  `json:"a,omitempty"`
	B    int64  `json:"b,omitempty"`
	C    int64  `json:"c,omitempty"`
}

type logicFamily struct{}

func init() { families["logic"] = logicFamily{} }

func logicCase(p logicParams, ops []logicOp) *hc.Case {
	c := &hc.Case{Params: hc.Raw(p)}
	for _, o := range ops {
		c.Ops = append(c.Ops, hc.Raw(o))
	}
	return c
}

func (logicFamily) Corpus(string) []*hc.Case {
	run := func(k string, t int64) logicOp { return logicOp{K: "run", Kind: k, T: t} }
	p := logicParams{Opener: "hystrix", N: 10, Dur: 10 * sec, Pct: 50, Vol: 3, Sleep: sec, Half: 1, Req: 2}
	// a transition, then a full window: the outcomes from before must neither count nor be subtracted twice
	a := []logicOp{run("KFailure", 0), run("KFailure", 1), run("KFailure", 2), {K: "shouldopen", T: 2}, {K: "circ", Kind: "Opened", T: 2},
		{K: "circ", Kind: "Closed", T: sec}, run("KFailure", 10*sec+sec/2), run("KFailure", 10*sec+sec/2), {K: "shouldopen", T: 10*sec + sec/2},
		run("KFailure", 10*sec+sec/2), {K: "shouldopen", T: 10*sec + sec/2}}
	// thresholds changed live: the new values decide at the next question, the counters stay
	b := []logicOp{run("KFailure", 0), run("KSuccess", 0), {K: "shouldopen", T: 0}, {K: "setopener", A: 50, B: 2}, {K: "shouldopen", T: 0}, {K: "setopener", A: 51, B: 2}, {K: "shouldopen", T: 0},
		{K: "circ", Kind: "Opened", T: 5}, {K: "allow", T: 5 + sec}, {K: "fire", A: 0}, {K: "setcloser", A: 3 * sec, B: 2, C: 1}, {K: "allow", T: 5 + sec}, {K: "allow", T: 6 + sec}, {K: "allow", T: 7 + sec},
		run("KSuccess", 7+sec), {K: "shouldclose"}}
	pc := logicParams{Opener: "consec", Thr: 3, Sleep: sec, Half: 1, Req: 1}
	// the streak passes a threshold that is lowered afterwards
	c := []logicOp{run("KFailure", 0), run("KFailure", 0), {K: "shouldopen"}, {K: "setthr", A: 2}, {K: "shouldopen"}, run("KBadRequest", 0), run("KInterrupt", 0), {K: "shouldopen"}, run("KSuccess", 0), {K: "shouldopen"}}
	// the probe budget changed inside a partly used half-open window: what was spent stays spent
	p3 := logicParams{Opener: "consec", Thr: 3, Sleep: sec, Half: 3, Req: 5}
	d := []logicOp{{K: "circ", Kind: "Opened", T: 0}, {K: "fire", A: 0}, {K: "allow", T: sec}, {K: "allow", T: sec}, {K: "setcloser", A: sec, B: 4, C: 5}, {K: "allow", T: sec}, {K: "allow", T: sec}, {K: "allow", T: sec},
		{K: "fire", A: 1}, {K: "allow", T: 2 * sec}, {K: "setcloser", A: sec, B: 2, C: 5}, {K: "allow", T: 2 * sec}, {K: "allow", T: 2 * sec}, {K: "setcloser", A: sec, B: 3, C: 5}, {K: "allow", T: 2 * sec}, {K: "allow", T: 2 * sec}}
	// outcomes of every counting kind recorded WHILE OPEN (failed and timed-out probes) are forgotten at the close
	p4 := logicParams{Opener: "hystrix", N: 10, Dur: 10 * sec, Pct: 50, Vol: 4, Sleep: sec, Half: 1, Req: 1}
	e := []logicOp{{K: "circ", Kind: "Opened", T: 0}, run("KTimeout", sec), run("KFailure", 2*sec), run("KTimeout", 2*sec), run("KSuccess", 3*sec), {K: "circ", Kind: "Closed", T: 3 * sec},
		run("KSuccess", 3*sec), run("KSuccess", 3*sec), run("KSuccess", 3*sec), run("KFailure", 4*sec), {K: "shouldopen", T: 4 * sec}, run("KTimeout", 4*sec), {K: "shouldopen", T: 4 * sec}}
	// the closer reconfigured inside its sleep window (same values, then a longer window); the pending timer fires;
	// probes after the window
	g := []logicOp{{K: "circ", Kind: "Opened", T: 0}, {K: "allow", T: sec / 2}, {K: "setcloser", A: sec, B: 1, C: 1}, {K: "fire", A: 0}, {K: "allow", T: sec}, {K: "allow", T: sec + 1},
		{K: "setcloser", A: 3 * sec, B: 1, C: 1}, {K: "fire", A: 1}, {K: "allow", T: 2 * sec}, {K: "allow", T: 2*sec + 1}, {K: "allow", T: 5 * sec}}
	return []*hc.Case{logicCase(p, a), logicCase(p, b), logicCase(pc, c), logicCase(p3, d), logicCase(p4, e), logicCase(p4, g)}
}

func (logicFamily) Gen(r *rand.Rand, i int, tier string) *hc.Case {
	p := logicParams{Opener: hc.Pick(r, "hystrix", "hystrix", "consec"), N: hc.Pick(r, 1, 2, 4, 10), Pct: hc.Pick(r, int64(1), 29, 50, 57, 100), Vol: hc.Pick(r, int64(1), 2, 3, 5, 20),
		Thr: hc.Pick(r, int64(1), 2, 3, 5), Sleep: hc.Pick(r, int64(ms), sec, 5*sec), Half: hc.Pick(r, int64(1), 1, 2, 3, -1), Req: hc.Pick(r, int64(1), 1, 2, 3, -1)}
	p.Dur = int64(p.N) * hc.Pick(r, int64(7), ms, 100*ms, sec)
	w := p.Dur / int64(p.N)
	now := int64(0)
	var ops []logicOp
	n := 10 + r.Intn(40)
	kinds := []string{"KSuccess", "KFailure", "KFailure", "KTimeout", "KBadRequest", "KInterrupt", "KReject", "KShort"}
	timers := 0
	for len(ops) < n {
		t := now
		if r.Intn(12) == 0 {
			t = now - hc.Pick(r, int64(1), w, p.Dur, p.Dur+w) // an old stamp
			if t < 0 {
				t = 0
			}
		}
		switch x := r.Intn(100); {
		case x < 45:
			ops = append(ops, logicOp{K: "run", Kind: kinds[r.Intn(len(kinds))], T: t})
		case x < 58:
			ops = append(ops, logicOp{K: "shouldopen", T: t})
		case x < 66:
			ops = append(ops, logicOp{K: "allow", T: t})
			timers++
		case x < 71:
			ops = append(ops, logicOp{K: "shouldclose", T: t})
		case x < 78:
			ops = append(ops, logicOp{K: "circ", Kind: hc.Pick(r, "Opened", "Closed"), T: t})
			timers++
		case x < 84:
			if timers > 0 {
				if r.Intn(4) == 0 {
					ops = append(ops, logicOp{K: "fire", A: int64(r.Intn(timers))})
				} else {
					ops = append(ops, logicOp{K: "firelast"}) // resolved to the newest registration when executed
				}
			}
		case x < 88:
			ops = append(ops, logicOp{K: "setopener", A: hc.Pick(r, int64(0), 1, 29, 50, 99, 100), B: hc.Pick(r, int64(0), 1, 2, 5)})
		case x < 91:
			ops = append(ops, logicOp{K: "setthr", A: hc.Pick(r, int64(0), 1, 2, 4)})
		case x < 95:
			ops = append(ops, logicOp{K: "setcloser", A: hc.Pick(r, int64(0), ms, sec, 3*sec), B: hc.Pick(r, int64(0), 1, 2), C: hc.Pick(r, int64(0), 1, 2, 3)})
			if r.Intn(2) == 0 {
				// the timer pending at the reconfiguration fires afterwards; probes long after every window in play
				ops = append(ops, logicOp{K: "firelast"}, logicOp{K: "allow", T: now + p.Sleep + 4*sec}, logicOp{K: "allow", T: now + p.Sleep + 4*sec})
			}
		default:
			ops = append(ops, logicOp{K: "prevent", T: t})
		}
		now += hc.Pick(r, int64(0), 0, 1, w-1, w, w+1, p.Dur, p.Sleep, p.Sleep+1, p.Sleep/2)
	}
	return logicCase(p, ops)
}

func (logicFamily) Exec(c *hc.Case) {
	var p logicParams
	must(json.Unmarshal(c.Params, &p))
	start := hc.T0
	at := func(t int64) time.Time { return hc.T0.Add(time.Duration(t)) }
	type reg struct {
		d time.Duration
		f func()
		t *time.Timer
	}
	var regs []reg
	defer func() {
		for _, r := range regs {
			r.t.Stop()
		}
	}()
	after := func(d time.Duration, f func()) *time.Timer {
		t := hc.LiveTimer() // a timer the library has stopped does not fire
		regs = append(regs, reg{d, f, t})
		return t
	}
	var opener circuit.ClosedToOpen
	if p.Opener == "hystrix" {
		// the opener's own clock moves between two readings (half a bucket each): its two windows start at ONE reading
		reads := 0
		openerNow := func() time.Time {
			reads++
			return start.Add(time.Duration(int64(reads-1) * (p.Dur / int64(2*p.N))))
		}
		opener = hystrix.OpenerFactory(hystrix.ConfigureOpener{ErrorThresholdPercentage: p.Pct, RequestVolumeThreshold: p.Vol, Now: openerNow,
			RollingDuration: time.Duration(p.Dur), NumBuckets: p.N})()
		eff := opener.(*hystrix.Opener).Config()
		p.Pct, p.Vol, p.Dur, p.N = eff.ErrorThresholdPercentage, eff.RequestVolumeThreshold, int64(eff.RollingDuration), eff.NumBuckets
	} else {
		opener = simplelogic.ConsecutiveErrOpenerFactory(simplelogic.ConfigConsecutiveErrOpener{ErrorThreshold: p.Thr})()
	}
	closer := hystrix.CloserFactory(hystrix.ConfigureCloser{AfterFunc: after, SleepWindow: time.Duration(p.Sleep), HalfOpenAttempts: p.Half, RequiredConcurrentSuccessful: p.Req})().(*hystrix.Closer)
	effc := closer.Config()
	p.Sleep, p.Half, p.Req = int64(effc.SleepWindow), effc.HalfOpenAttempts, effc.RequiredConcurrentSuccessful
	c.Params = hc.Raw(p)
	ctx := context.Background()
	tags := map[string]bool{"opener:" + p.Opener: true}
	// the property's own oracle for the hystrix opener (clock moving forward only): outcomes since the last
	// transition whose bucket is among the newest N ending at the question's time
	type oc struct {
		k string
		t int64
	}
	var since []oc
	pct, vol, thr := p.Pct, p.Vol, p.Thr
	forward, last := true, int64(0)
	streak := int64(0)
	succ, need := int64(0), p.Req
	for i, raw := range c.Ops {
		var o logicOp
		must(json.Unmarshal(raw, &o))
		out := "LONone"
		before := len(regs)
		armed := func() string {
			var l []int64
			for _, r := range regs[before:] {
				l = append(l, int64(r.d))
			}
			return hc.ZList(l)
		}
		if o.K == "run" || o.K == "circ" || o.K == "shouldopen" || o.K == "allow" {
			if o.T < last {
				forward = false
			}
			last = o.T
		}
		switch o.K {
		case "run":
			for _, x := range []circuit.RunMetrics{opener, closer} {
				switch o.Kind {
				case "KSuccess":
					x.Success(ctx, at(o.T), 0)
				case "KFailure":
					x.ErrFailure(ctx, at(o.T), 0)
				case "KTimeout":
					x.ErrTimeout(ctx, at(o.T), 0)
				case "KBadRequest":
					x.ErrBadRequest(ctx, at(o.T), 0)
				case "KInterrupt":
					x.ErrInterrupt(ctx, at(o.T), 0)
				case "KReject":
					x.ErrConcurrencyLimitReject(ctx, at(o.T))
				case "KShort":
					x.ErrShortCircuit(ctx, at(o.T))
				}
			}
			since = append(since, oc{o.Kind, o.T})
			switch o.Kind {
			case "KSuccess":
				streak = 0
				succ++
			case "KFailure", "KTimeout":
				streak++
				succ = 0
			}
			tags["run:"+o.Kind] = true
		case "circ":
			if o.Kind == "Opened" {
				opener.Opened(ctx, at(o.T))
				closer.Opened(ctx, at(o.T))
			} else {
				opener.Closed(ctx, at(o.T))
				closer.Closed(ctx, at(o.T))
			}
			since, streak, succ = nil, 0, 0
			out = "LOArmed " + armed()
			tags["transition"] = true
		case "shouldopen":
			got := opener.ShouldOpen(ctx, at(o.T))
			out = "LOBool " + hc.B(got)
			if p.Opener == "hystrix" && forward && p.N > 0 && p.Dur/int64(p.N) > 0 {
				w := p.Dur / int64(p.N)
				atts, errs := int64(0), int64(0)
				for _, x := range since {
					if x.t/w > o.T/w-int64(p.N) {
						switch x.k {
						case "KSuccess":
							atts++
						case "KFailure", "KTimeout":
							atts++
							errs++
						}
					}
				}
				want := atts != 0 && atts >= vol && 100*errs >= pct*atts
				if got != want {
					c.Viol = append(c.Viol, hc.Violation{Clause: "C02: with the hystrix opener, attempts >= RequestVolumeThreshold and 100*errors >= ErrorThresholdPercentage*attempts among calls completed inside the rolling window since the last transition", Detail: fmt.Sprintf("ShouldOpen=%v with attempts %d errors %d volume %d pct %d", got, atts, errs, vol, pct), AtOp: i})
					c.Viol = append(c.Viol, hc.Violation{Clause: "C11: each call observes, for every setting, either the old or the new value", Detail: fmt.Sprintf("ShouldOpen=%v with attempts %d errors %d under the thresholds in force (volume %d pct %d)", got, atts, errs, vol, pct), AtOp: i})
				}
				tags["oracle:hystrix"] = true
			}
			if p.Opener == "consec" {
				if want := streak >= thr; got != want {
					c.Viol = append(c.Viol, hc.Violation{Clause: "C02: with the consecutive-errors opener it opens if and only if the last ErrorThreshold such outcomes were all failures or timeouts", Detail: fmt.Sprintf("ShouldOpen=%v with a streak of %d and threshold %d", got, streak, thr), AtOp: i})
				}
				tags["oracle:consec"] = true
			}
		case "prevent":
			out = "LOBool " + hc.B(opener.Prevent(ctx, at(o.T)))
		case "allow":
			got := closer.Allow(ctx, at(o.T))
			out = fmt.Sprintf("LOAllow %s %s", hc.B(got), armed())
		case "shouldclose":
			got := closer.ShouldClose(ctx, at(o.T))
			out = "LOBool " + hc.B(got)
			if want := succ >= need; got != want {
				c.Viol = append(c.Viol, hc.Violation{Clause: "C03: it closes exactly when max(1, RequiredConcurrentSuccessful) successes have completed since the opening with no failure or timeout in between", Detail: fmt.Sprintf("ShouldClose=%v with %d consecutive successes, required %d", got, succ, need), AtOp: i})
			}
		case "fire", "firelast":
			if o.K == "firelast" {
				o.K, o.A = "fire", int64(len(regs)-1)
				if o.A < 0 {
					o.A = 0
				}
				c.Ops[i] = hc.Raw(o)
			}
			if int(o.A) < len(regs) {
				hc.FireTimer(regs[o.A].t, regs[o.A].f)
				tags["fire"] = true
			}
		case "setopener":
			if h, ok := opener.(*hystrix.Opener); ok {
				cfg := h.Config()
				cfg.ErrorThresholdPercentage, cfg.RequestVolumeThreshold = o.A, o.B
				h.SetConfigThreadSafe(cfg)
				pct, vol = o.A, o.B
				tags["live:opener"] = true
			}
		case "setthr":
			if h, ok := opener.(*simplelogic.ConsecutiveErrOpener); ok {
				h.SetConfigThreadSafe(simplelogic.ConfigConsecutiveErrOpener{ErrorThreshold: o.A})
				thr = o.A
				tags["live:consec"] = true
			}
		case "setcloser":
			closer.SetConfigThreadSafe(hystrix.ConfigureCloser{AfterFunc: after, SleepWindow: time.Duration(o.A), HalfOpenAttempts: o.B, RequiredConcurrentSuccessful: o.C})
			need = o.C
			tags["live:closer"] = true
		}
		c.Outs = append(c.Outs, out)
	}
	if !forward {
		tags["clock:set_back"] = true
	}
	if c.ID%6 == 0 {
		liveTimerProbe(c, tags)
	}
	for t := range tags {
		c.Tags = append(c.Tags, t)
	}
}

// liveTimerProbe: the hystrix closer on REAL timers (no substitute AfterFunc, wall clock), reconfigured while it is
// open and inside its sleep window.  Under the old and under the new configuration alike a call that arrives after
// the (longer of the two) sleep windows is admitted as a probe; so it is after a reconfiguration in between,
// whatever the reconfiguration does to the pending timer.
func liveTimerProbe(c *hc.Case, tags map[string]bool) {
	ctx := context.Background()
	for _, newSleep := range []time.Duration{30 * time.Millisecond, 45 * time.Millisecond} {
		closer := hystrix.CloserFactory(hystrix.ConfigureCloser{SleepWindow: 30 * time.Millisecond, HalfOpenAttempts: 1, RequiredConcurrentSuccessful: 1})().(*hystrix.Closer)
		t0 := time.Now()
		closer.Opened(ctx, t0)
		if closer.Allow(ctx, time.Now()) {
			continue // the sleep window itself is C03's business
		}
		time.Sleep(5 * time.Millisecond)
		closer.SetConfigThreadSafe(hystrix.ConfigureCloser{SleepWindow: newSleep, HalfOpenAttempts: 1, RequiredConcurrentSuccessful: 2})
		admitted := false
		for time.Since(t0) < 3*time.Second {
			time.Sleep(20 * time.Millisecond)
			if time.Since(t0) > 50*time.Millisecond && closer.Allow(ctx, time.Now()) {
				admitted = true
				break
			}
		}
		tags["live-timer-reconf"] = true
		if !admitted {
			c.Viol = append(c.Viol, hc.Violation{Clause: "C11: each call observes, for every setting, either the old or the new value", Detail: fmt.Sprintf("hystrix closer on real timers, opened with SleepWindow 30ms, reconfigured 5 ms later (SleepWindow %v): no call was admitted as a probe during 3 s, an outcome of neither configuration", newSleep), AtOp: len(c.Ops)})
		}
	}
}

func (logicFamily) Emit(w io.Writer, f *hc.File) {
	fmt.Fprintln(w, "From CV Require Import Base.Prelude Seq.RollingCounter Seq.TimedCheck Seq.Logic Seq.CaseCheck Seq.LogicCase.")
	fmt.Fprintf(w, "Definition t0 : Z := %s.\n", hc.ZofTime(hc.T0))
	fmt.Fprintln(w, "Definition cases : list logic_case := [")
	for i, c := range f.Cases {
		var p logicParams
		must(json.Unmarshal(c.Params, &p))
		op := fmt.Sprintf("OpConsec 0 %s", hc.Zi(p.Thr))
		if p.Opener == "hystrix" {
			op = fmt.Sprintf("OpHystrix (ho_init %d %s t0 %s %s)", p.N, hc.Zi(p.Dur), hc.Zi(p.Pct), hc.Zi(p.Vol))
		}
		cl := fmt.Sprintf("closer_init_hystrix %s %s %s", hc.Zi(p.Sleep), hc.Zi(p.Half), hc.Zi(p.Req))
		var ops []string
		for _, raw := range c.Ops {
			var o logicOp
			must(json.Unmarshal(raw, &o))
			t := fmt.Sprintf("(t0 + %s)", hc.Zi(o.T))
			switch o.K {
			case "run":
				ops = append(ops, fmt.Sprintf("LRun %s %s", o.Kind, t))
			case "circ":
				ops = append(ops, fmt.Sprintf("LCirc %s %s", o.Kind, t))
			case "shouldopen":
				ops = append(ops, "LShouldOpen "+t)
			case "prevent":
				ops = append(ops, "LPrevent "+t)
			case "allow":
				ops = append(ops, "LAllow "+t)
			case "shouldclose":
				ops = append(ops, "LShouldClose "+t)
			case "fire":
				ops = append(ops, fmt.Sprintf("LFire %d%%nat", o.A))
			case "setopener":
				ops = append(ops, fmt.Sprintf("LSetOpener %s %s", hc.Zi(o.A), hc.Zi(o.B)))
			case "setthr":
				ops = append(ops, "LSetThr "+hc.Zi(o.A))
			case "setcloser":
				ops = append(ops, fmt.Sprintf("LSetCloser %s %s %s", hc.Zi(o.A), hc.Zi(o.B), hc.Zi(o.C)))
			}
		}
		sep := ";"
		if i == len(f.Cases)-1 {
			sep = ""
		}
		fmt.Fprintf(w, " (%d%%nat, %s, %s, %s,\n   %s)%s\n", c.ID, op, cl, hc.List(ops), hc.List(c.Outs), sep)
	}
	fmt.Fprintln(w, "].")
	fmt.Fprintln(w, "Definition result := Eval vm_compute in logic_mismatches cases.")
	fmt.Fprintln(w, "Print result.")
}
