package main

// Family "circ": circuit.Circuit driven through its public API at segment
// granularity (DESIGN.md 2.1).  Every call runs on its own goroutine and parks
// inside the harness-supplied run function / fallback until the history says
// how it finishes, so each event of the history is executed alone and the log
// of observations is deterministic.

import (
	"context"
	"encoding/json"
	"errors"
	"fmt"
	"io"
	"strings"
	"sync"
	"time"

	"github.com/cep21/circuit/v4"
	"github.com/cep21/circuit/v4/closers/hystrix"
	"github.com/cep21/circuit/v4/closers/simplelogic"

	"verifharness/internal/hc"
)

type liveCfg struct {
	Disabled     bool   `json:"disabled,omitempty"`
	ForceOpen    bool   `json:"force_open,omitempty"`
	ForcedClosed bool   `json:"forced_closed,omitempty"`
	Timeout      int64  `json:"timeout"`
	Max          int64  `json:"max"`
	IgnoreInt    bool   `json:"ignore_int,omitempty"`
	IE           string `json:"ie"` // nil true false
	FbDisabled   bool   `json:"fb_disabled,omitempty"`
	FbMax        int64  `json:"fb_max"`
}

type openerSpec struct {
	Kind string `json:"kind"` // never hystrix consec custom
	N    int    `json:"n,omitempty"`
	Dur  int64  `json:"dur,omitempty"`
	Pct  int64  `json:"pct,omitempty"`
	Vol  int64  `json:"vol,omitempty"`
	Thr  int64  `json:"thr,omitempty"`
}

type closerSpec struct {
	Kind     string `json:"kind"` // never hystrix custom
	Sleep    int64  `json:"sleep,omitempty"`
	HalfOpen int64  `json:"half_open,omitempty"`
	Required int64  `json:"required,omitempty"`
}

type circParams struct {
	Mode   string     `json:"mode"` // normal nil zero
	Opener openerSpec `json:"opener"`
	Closer closerSpec `json:"closer"`
	Live   liveCfg    `json:"live"`
	NRun   int        `json:"nrun"`
	NFb    int        `json:"nfb"`
	NCirc  int        `json:"ncirc"`
	Stats  bool       `json:"stats,omitempty"` // attach rolling.StatFactory + SLO tracker (family "stats")
}

type callSpec struct {
	HasRun   bool   `json:"has_run"`
	HasFb    bool   `json:"has_fb"`
	Entry    string `json:"entry"`              // execute run go
	Deadline *int64 `json:"deadline,omitempty"` // caller deadline, ns after T0
	Done     bool   `json:"done,omitempty"`
	Allow    bool   `json:"allow,omitempty"`
	Prevent  bool   `json:"prevent,omitempty"`
}

type circOp struct {
	K    string    `json:"k"` // begin endrun endfb cancel open close setcfg tick fire
	ID   int       `json:"id,omitempty"`
	Call *callSpec `json:"call,omitempty"`
	Res  string    `json:"res,omitempty"` // nil err bad wrapbad panic | fnil ferr fpanic
	RK   int       `json:"rk,omitempty"`  // index of the error / panic value
	SO   bool      `json:"so,omitempty"`  // custom ShouldOpen answer
	SC   bool      `json:"sc,omitempty"`  // custom ShouldClose answer
	Live *liveCfg  `json:"live,omitempty"`
	D    int64     `json:"d,omitempty"`
}

// ---------------------------------------------------------------- the run
type callRt struct {
	spec      callSpec
	ctx       context.Context
	cancel    context.CancelFunc
	resume    chan circOp
	runCtx    context.Context
	returned  bool
	phase     string // run fb done
	startedAt time.Time
}

type circRun struct {
	mu      sync.Mutex
	now     time.Time
	log     []string // observations of the current event
	timers  []func()
	live    []*time.Timer
	settled chan struct{}
	hung    bool // a hand-over timed out: the rest of the history is not executed
	calls   map[int]*callRt
	script  struct{ allow, prevent, so, sc bool }
	errs    map[int]error
	bads    map[int]error
	wraps   map[int]error
	fberrs  map[int]error
	pvals   []interface{}
	c       *circuit.Circuit
	params  circParams
	// raw event records for the monitors
	ev       []evRec
	initOpen bool
}

type evRec struct {
	Kind string // run fb circ asked timer invoked fbinvoked returned reading runend
	Who  string
	K    string
	T    time.Time
	D    time.Duration
	HasD bool
	ID   int
	Val  string
	B    bool
	B2   bool
	Z    [3]int64
}

func (h *circRun) Now() time.Time {
	h.mu.Lock()
	defer h.mu.Unlock()
	return h.now
}

func (h *circRun) AfterFunc(d time.Duration, f func()) *time.Timer {
	h.mu.Lock()
	t := hc.LiveTimer() // a timer the library has stopped does not fire
	h.timers = append(h.timers, f)
	h.live = append(h.live, t)
	h.mu.Unlock()
	h.add(fmt.Sprintf("OTimer %s", hc.Zi(int64(d))), evRec{Kind: "timer", D: d})
	return t
}

func (h *circRun) add(s string, r evRec) {
	h.mu.Lock()
	if s != "" {
		h.log = append(h.log, s)
	}
	h.ev = append(h.ev, r)
	h.mu.Unlock()
}

// note records something for the monitors only (not compared with the model).
func (h *circRun) note(r evRec) { h.add("", r) }

func optD(d time.Duration, has bool) string {
	if !has {
		return "None"
	}
	return "(Some " + hc.Zi(int64(d)) + ")"
}

func (h *circRun) runEv(who, k string, t time.Time, d time.Duration, has bool) {
	h.add(fmt.Sprintf("ORunEv %s %s %s %s", who, k, hc.ZofTime(t), optD(d, has)), evRec{Kind: "run", Who: who, K: k, T: t, D: d, HasD: has})
}

// recording wrappers ------------------------------------------------------
type recRun struct {
	h     *circRun
	who   string
	inner circuit.RunMetrics
}

func (r *recRun) Success(ctx context.Context, now time.Time, d time.Duration) {
	r.h.runEv(r.who, "KSuccess", now, d, true)
	if r.inner != nil {
		r.inner.Success(ctx, now, d)
	}
}
func (r *recRun) ErrFailure(ctx context.Context, now time.Time, d time.Duration) {
	r.h.runEv(r.who, "KFailure", now, d, true)
	if r.inner != nil {
		r.inner.ErrFailure(ctx, now, d)
	}
}
func (r *recRun) ErrTimeout(ctx context.Context, now time.Time, d time.Duration) {
	r.h.runEv(r.who, "KTimeout", now, d, true)
	if r.inner != nil {
		r.inner.ErrTimeout(ctx, now, d)
	}
}
func (r *recRun) ErrBadRequest(ctx context.Context, now time.Time, d time.Duration) {
	r.h.runEv(r.who, "KBadRequest", now, d, true)
	if r.inner != nil {
		r.inner.ErrBadRequest(ctx, now, d)
	}
}
func (r *recRun) ErrInterrupt(ctx context.Context, now time.Time, d time.Duration) {
	r.h.runEv(r.who, "KInterrupt", now, d, true)
	if r.inner != nil {
		r.inner.ErrInterrupt(ctx, now, d)
	}
}
func (r *recRun) ErrConcurrencyLimitReject(ctx context.Context, now time.Time) {
	r.h.runEv(r.who, "KReject", now, 0, false)
	if r.inner != nil {
		r.inner.ErrConcurrencyLimitReject(ctx, now)
	}
}
func (r *recRun) ErrShortCircuit(ctx context.Context, now time.Time) {
	r.h.runEv(r.who, "KShort", now, 0, false)
	if r.inner != nil {
		r.inner.ErrShortCircuit(ctx, now)
	}
}

type recCirc struct {
	h     *circRun
	who   string
	inner circuit.Metrics
}

func (r *recCirc) Opened(ctx context.Context, now time.Time) {
	r.h.add(fmt.Sprintf("OCircEv %s Opened %s", r.who, hc.ZofTime(now)), evRec{Kind: "circ", Who: r.who, K: "Opened", T: now})
	if r.inner != nil {
		r.inner.Opened(ctx, now)
	}
}
func (r *recCirc) Closed(ctx context.Context, now time.Time) {
	r.h.add(fmt.Sprintf("OCircEv %s Closed %s", r.who, hc.ZofTime(now)), evRec{Kind: "circ", Who: r.who, K: "Closed", T: now})
	if r.inner != nil {
		r.inner.Closed(ctx, now)
	}
}

// recBoth is one collector object listed as a run collector and as a circuit collector.
type recBoth struct {
	recRun
	recCirc
}

type recOpener struct {
	recRun
	recCirc
	inner circuit.ClosedToOpen // nil: custom, scripted
}

func (r *recOpener) ShouldOpen(ctx context.Context, now time.Time) bool {
	r.recRun.h.add("OAsked QShouldOpen "+hc.ZofTime(now), evRec{Kind: "asked", K: "ShouldOpen", T: now})
	ans := r.recRun.h.script.so
	if r.inner != nil {
		ans = r.inner.ShouldOpen(ctx, now)
	}
	r.recRun.h.note(evRec{Kind: "answer", K: "ShouldOpen", B: ans})
	return ans
}
func (r *recOpener) Prevent(ctx context.Context, now time.Time) bool {
	r.recRun.h.add("OAsked QPrevent "+hc.ZofTime(now), evRec{Kind: "asked", K: "Prevent", T: now})
	ans := r.recRun.h.script.prevent
	if r.inner != nil {
		ans = r.inner.Prevent(ctx, now)
	}
	r.recRun.h.note(evRec{Kind: "answer", K: "Prevent", B: ans})
	return ans
}

type recCloser struct {
	recRun
	recCirc
	inner circuit.OpenToClosed
}

func (r *recCloser) ShouldClose(ctx context.Context, now time.Time) bool {
	r.recRun.h.add("OAsked QShouldClose "+hc.ZofTime(now), evRec{Kind: "asked", K: "ShouldClose", T: now})
	ans := r.recRun.h.script.sc
	if r.inner != nil {
		ans = r.inner.ShouldClose(ctx, now)
	}
	r.recRun.h.note(evRec{Kind: "answer", K: "ShouldClose", B: ans})
	return ans
}
func (r *recCloser) Allow(ctx context.Context, now time.Time) bool {
	r.recRun.h.add("OAsked QAllow "+hc.ZofTime(now), evRec{Kind: "asked", K: "Allow", T: now})
	ans := r.recRun.h.script.allow
	if r.inner != nil {
		ans = r.inner.Allow(ctx, now)
	}
	r.recRun.h.note(evRec{Kind: "answer", K: "Allow", B: ans})
	return ans
}

type recFb struct {
	h *circRun
	i int
}

func (r *recFb) fb(k string, t time.Time, d time.Duration, has bool) {
	r.h.add(fmt.Sprintf("OFbEv %d%%nat %s %s %s", r.i, k, hc.ZofTime(t), optD(d, has)), evRec{Kind: "fb", Who: fmt.Sprint(r.i), K: k, T: t, D: d, HasD: has})
}
func (r *recFb) Success(_ context.Context, now time.Time, d time.Duration)    { r.fb("FKSuccess", now, d, true) }
func (r *recFb) ErrFailure(_ context.Context, now time.Time, d time.Duration) { r.fb("FKFailure", now, d, true) }
func (r *recFb) ErrConcurrencyLimitReject(_ context.Context, now time.Time)   { r.fb("FKReject", now, 0, false) }

type ctxKey struct{}

type pstruct struct{ a, b int }

func (p liveCfg) config() circuit.Config {
	var cfg circuit.Config
	cfg.General.Disabled = p.Disabled
	cfg.General.ForceOpen = p.ForceOpen
	cfg.General.ForcedClosed = p.ForcedClosed
	cfg.Execution.Timeout = time.Duration(p.Timeout)
	cfg.Execution.MaxConcurrentRequests = p.Max
	cfg.Execution.IgnoreInterrupts = p.IgnoreInt
	// the predicate is asked about the CALLER CONTEXT's error (context.Canceled / DeadlineExceeded), not about what
	// the run function returned: "true" says yes to context errors only, "false" says no to context errors only
	isCtxErr := func(err error) bool { return err == context.Canceled || err == context.DeadlineExceeded }
	switch p.IE {
	case "true":
		cfg.Execution.IsErrInterrupt = func(err error) bool { return isCtxErr(err) }
	case "false":
		cfg.Execution.IsErrInterrupt = func(err error) bool { return !isCtxErr(err) }
	}
	cfg.Fallback.Disabled = p.FbDisabled
	cfg.Fallback.MaxConcurrentRequests = p.FbMax
	return cfg
}

// neverLogic returns the library's own default open/close logic values.
func neverLogic() (circuit.ClosedToOpen, circuit.OpenToClosed) {
	c := circuit.NewCircuitFromConfig("defaults", circuit.Config{})
	return c.ClosedToOpen, c.OpenToClose
}

func newCircRun(p *circParams) *circRun {
	h := &circRun{now: hc.T0, settled: make(chan struct{}, 64), calls: map[int]*callRt{},
		errs: map[int]error{}, bads: map[int]error{}, wraps: map[int]error{}, fberrs: map[int]error{}, params: *p}
	var typedNil *pstruct
	// a genuine runtime.Error value (what a nil-map write raises), re-raised by the scripted functions
	runtimeErr := func() (v interface{}) {
		defer func() { v = recover() }()
		var m map[int]int
		m[0] = 1
		return nil
	}()
	h.pvals = []interface{}{"boom", errors.New("panic-error"), pstruct{1, 2}, typedNil, runtimeErr}
	switch p.Mode {
	case "nil":
		h.c = nil
		return h
	case "zero":
		h.c = &circuit.Circuit{}
		return h
	}
	cfg := p.Live.config()
	cfg.General.TimeKeeper = circuit.TimeKeeper{Now: h.Now, AfterFunc: h.AfterFunc}
	defOpener, defCloser := neverLogic()
	cfg.General.ClosedToOpenFactory = func() circuit.ClosedToOpen {
		var inner circuit.ClosedToOpen
		switch p.Opener.Kind {
		case "never":
			inner = defOpener
		case "hystrix":
			inner = hystrix.OpenerFactory(hystrix.ConfigureOpener{ErrorThresholdPercentage: p.Opener.Pct, RequestVolumeThreshold: p.Opener.Vol,
				Now: h.Now, RollingDuration: time.Duration(p.Opener.Dur), NumBuckets: p.Opener.N})()
			eff := inner.(*hystrix.Opener).Config()
			p.Opener.Pct, p.Opener.Vol, p.Opener.Dur, p.Opener.N = eff.ErrorThresholdPercentage, eff.RequestVolumeThreshold, int64(eff.RollingDuration), eff.NumBuckets
		case "consec":
			inner = simplelogic.ConsecutiveErrOpenerFactory(simplelogic.ConfigConsecutiveErrOpener{ErrorThreshold: p.Opener.Thr})()
			if p.Opener.Thr == 0 {
				p.Opener.Thr = 10
			}
		}
		r := &recOpener{inner: inner}
		r.recRun = recRun{h: h, who: "WOpener", inner: inner}
		r.recCirc = recCirc{h: h, who: "WOpener", inner: inner}
		return r
	}
	cfg.General.OpenToClosedFactory = func() circuit.OpenToClosed {
		var inner circuit.OpenToClosed
		switch p.Closer.Kind {
		case "never":
			inner = defCloser
		case "hystrix":
			inner = hystrix.CloserFactory(hystrix.ConfigureCloser{AfterFunc: h.AfterFunc, SleepWindow: time.Duration(p.Closer.Sleep),
				HalfOpenAttempts: p.Closer.HalfOpen, RequiredConcurrentSuccessful: p.Closer.Required})()
			eff := inner.(*hystrix.Closer).Config()
			p.Closer.Sleep, p.Closer.HalfOpen, p.Closer.Required = int64(eff.SleepWindow), eff.HalfOpenAttempts, eff.RequiredConcurrentSuccessful
		}
		r := &recCloser{inner: inner}
		r.recRun = recRun{h: h, who: "WCloser", inner: inner}
		r.recCirc = recCirc{h: h, who: "WCloser", inner: inner}
		return r
	}
	// collector lists with spare capacity, as a caller that builds a Config once and appends per circuit has them
	cfg.Metrics.Run = make([]circuit.RunMetrics, 0, p.NRun+4)
	cfg.Metrics.Fallback = make([]circuit.FallbackMetrics, 0, p.NFb+4)
	cfg.Metrics.Circuit = make([]circuit.Metrics, 0, p.NCirc+4)
	// the user's collectors come from TWO configuration layers, as with a Manager: the first half in the explicit
	// config, the rest from a DefaultCircuitProperties constructor (lists merge receiver-then-other, so the order is kept)
	var layer circuit.Config
	// every other user collector is ONE object that implements both RunMetrics and Metrics and is listed under both
	// (a stats object that also wants the transitions): each listing hears each event once
	both := map[int]*recBoth{}
	for i := 0; i < p.NRun && i < p.NCirc; i += 2 {
		who := fmt.Sprintf("(WUser %d%%nat)", i)
		both[i] = &recBoth{recRun{h: h, who: who}, recCirc{h: h, who: who}}
	}
	for i := 0; i < p.NRun; i++ {
		var rc circuit.RunMetrics = &recRun{h: h, who: fmt.Sprintf("(WUser %d%%nat)", i)}
		if b := both[i]; b != nil {
			rc = b
		}
		if i < (p.NRun+1)/2 {
			cfg.Metrics.Run = append(cfg.Metrics.Run, rc)
		} else {
			layer.Metrics.Run = append(layer.Metrics.Run, rc)
		}
	}
	for i := 0; i < p.NFb; i++ {
		rc := &recFb{h: h, i: i}
		if i < (p.NFb+1)/2 {
			cfg.Metrics.Fallback = append(cfg.Metrics.Fallback, rc)
		} else {
			layer.Metrics.Fallback = append(layer.Metrics.Fallback, rc)
		}
	}
	for i := 0; i < p.NCirc; i++ {
		var rc circuit.Metrics = &recCirc{h: h, who: fmt.Sprintf("(WUser %d%%nat)", i)}
		if b := both[i]; b != nil {
			rc = b
		}
		if i < (p.NCirc+1)/2 {
			cfg.Metrics.Circuit = append(cfg.Metrics.Circuit, rc)
		} else {
			layer.Metrics.Circuit = append(layer.Metrics.Circuit, rc)
		}
	}
	if (p.NRun+p.NFb+p.NCirc)%2 == 1 {
		// a substitute clock given as Now alone (the timer factory left to the library's default)
		cfg.General.TimeKeeper = circuit.TimeKeeper{Now: h.Now}
	}
	if (p.NRun+p.NFb+p.NCirc)%4 == 2 {
		// the time keeper split over two layers: the explicit config names the timer factory only, the clock comes
		// from the manager's default layer (fields merge one by one)
		cfg.General.TimeKeeper = circuit.TimeKeeper{AfterFunc: h.AfterFunc}
		layer.General.TimeKeeper = circuit.TimeKeeper{Now: h.Now}
	}
	mgr := &circuit.Manager{DefaultCircuitProperties: []circuit.CommandPropertiesConstructor{func(string) circuit.Config { return layer }}}
	h.c = mgr.MustCreateCircuit("x", cfg)
	// a second circuit built from the same Config value (same backing arrays), with its own collectors appended over the
	// shared prefix and the default open/close logic: nothing it does may reach, or take away, the first circuit's collectors
	{
		d := cfg
		d.General.ClosedToOpenFactory, d.General.OpenToClosedFactory = nil, nil
		d.Metrics.Run = append(cfg.Metrics.Run[:0:cap(cfg.Metrics.Run)], inertRun{}, inertRun{}, inertRun{})
		d.Metrics.Fallback = append(cfg.Metrics.Fallback[:0:cap(cfg.Metrics.Fallback)], inertFb{}, inertFb{}, inertFb{})
		d.Metrics.Circuit = append(cfg.Metrics.Circuit[:0:cap(cfg.Metrics.Circuit)], inertCirc{}, inertCirc{}, inertCirc{})
		// (these appends overwrite the caller's own backing arrays; the first circuit is unaffected only if it copied its lists)
		_ = circuit.NewCircuitFromConfig("decoy", d)
	}
	h.initOpen = h.c.IsOpen()
	// NewCircuitFromConfig merges the library defaults into zero-valued settings: read the live values back
	eff := h.c.Config()
	p.Live.Timeout, p.Live.Max, p.Live.FbMax = int64(eff.Execution.Timeout), eff.Execution.MaxConcurrentRequests, eff.Fallback.MaxConcurrentRequests
	h.params = *p
	return h
}

func (h *circRun) errFor(m map[int]error, k int, mk func() error) error {
	if e, ok := m[k]; ok {
		return e
	}
	e := mk()
	m[k] = e
	return e
}

func (h *circRun) runErr(k int) error {
	return h.errFor(h.errs, k, func() error {
		if k%4 == 3 {
			// an ordinary failure: the caller's error type has a BadRequest method, and it answers false
			return &userErr{msg: fmt.Sprintf("run-error-%d", k), bad: false}
		}
		return fmt.Errorf("run-error-%d", k)
	})
}
func (h *circRun) badErr(k int) error {
	return h.errFor(h.bads, k, func() error {
		if k%3 == 2 {
			return &userErr{msg: fmt.Sprintf("bad-%d", k), bad: true} // a bad request of the caller's own type
		}
		if k%5 == 4 {
			return &asBadErr{msg: fmt.Sprintf("bad-%d", k)} // a foreign error that presents itself as one through As
		}
		return &circuit.SimpleBadRequest{Err: fmt.Errorf("bad-%d", k)}
	})
}

// userErr is an error type of the caller's own that implements circuit.BadRequest.
type userErr struct {
	msg string
	bad bool
}

// asBadErr wraps nothing and has no BadRequest method; it adapts to circuit.BadRequest through the errors.As protocol
// (an As method), the way a status error of another library would.
type asBadErr struct{ msg string }

func (a *asBadErr) Error() string { return a.msg }
func (a *asBadErr) As(target interface{}) bool {
	if t, ok := target.(*circuit.BadRequest); ok {
		*t = &userErr{msg: a.msg, bad: true}
		return true
	}
	return false
}

func (u *userErr) Error() string    { return u.msg }
func (u *userErr) BadRequest() bool { return u.bad }
func (h *circRun) wrapErr(k int) error {
	// a bad request somewhere in the error's chain or tree: wrapped once, joined with another error, or one of two %w
	return h.errFor(h.wraps, k, func() error {
		bad := circuit.SimpleBadRequest{Err: fmt.Errorf("inner-bad-%d", k)}
		switch k % 3 {
		case 1:
			return errors.Join(fmt.Errorf("unrelated-%d", k), bad)
		case 2:
			return fmt.Errorf("two causes: %w and %w", fmt.Errorf("unrelated-%d", k), bad)
		}
		return fmt.Errorf("wrapped: %w", bad)
	})
}
func (h *circRun) fbErr(k int) error {
	return h.errFor(h.fberrs, k, func() error { return fmt.Errorf("fb-error-%d", k) })
}

// retval maps an error value returned by the library to the model's symbolic
// name, by identity for every value the harness created.
func (h *circRun) retval(err error) string {
	if err == nil {
		return "VNil"
	}
	for k, e := range h.errs {
		if e == err {
			return fmt.Sprintf("(VRun %d)", k)
		}
	}
	for k, e := range h.bads {
		if e == err {
			return fmt.Sprintf("(VBad %d)", k)
		}
	}
	for k, e := range h.wraps {
		if e == err {
			return fmt.Sprintf("(VWrapBad %d)", k)
		}
	}
	for k, e := range h.fberrs {
		if e == err {
			return fmt.Sprintf("(VFb %d)", k)
		}
	}
	var ce circuit.Error
	if errors.As(err, &ce) {
		switch {
		case ce.CircuitOpen() && !ce.ConcurrencyLimitReached():
			return "VCircuitOpen"
		case ce.ConcurrencyLimitReached() && !ce.CircuitOpen():
			if strings.Contains(err.Error(), "fallback") {
				return "VFbThrottled"
			}
			return "VThrottled"
		}
	}
	return "(VRun 9999)" // an error value nobody created: never matches the model
}

func (h *circRun) panicName(v interface{}) string {
	for i, p := range h.pvals {
		if p == v {
			return fmt.Sprintf("(VPanic %d)", i)
		}
	}
	return "(VPanic 9999)"
}

func optT(t time.Time, ok bool) string {
	if !ok {
		return "None"
	}
	return "(Some " + hc.ZofTime(t) + ")"
}

func (h *circRun) startCall(id int, cs callSpec) {
	base := context.WithValue(context.Background(), ctxKey{}, id)
	if cs.Deadline != nil {
		var c0 context.CancelFunc
		base, c0 = context.WithDeadline(base, hc.T0.Add(time.Duration(*cs.Deadline)))
		_ = c0
	}
	ctx, cancel := context.WithCancel(base)
	rt := &callRt{spec: cs, ctx: ctx, cancel: cancel, resume: make(chan circOp, 1), phase: "begin"}
	h.calls[id] = rt
	if cs.Done {
		cancel()
	}
	var runFn func(context.Context) error
	if cs.HasRun {
		runFn = func(rctx context.Context) error {
			rt.runCtx = rctx
			dl, ok := rctx.Deadline()
			valOK := rctx.Value(ctxKey{}) == id
			h.add(fmt.Sprintf("ORunInvoked %d%%nat %s %s", id, hc.B(rctx != ctx), optT(dl, ok)),
				evRec{Kind: "invoked", ID: id, B: rctx != ctx, B2: valOK, T: dl, HasD: ok})
			rt.phase = "run"
			h.settled <- struct{}{}
			op := <-rt.resume
			ended := rctx.Err() != nil
			if hc.PastEpoch {
				ended = ctx.Err() != nil // the derived deadline has long passed on the wall clock: report the caller's side only
			}
			h.add(fmt.Sprintf("ORunEnd %d%%nat %s", id, hc.B(ended)), evRec{Kind: "runend", ID: id, B: ended})
			switch op.Res {
			case "nil":
				return nil
			case "err":
				return h.runErr(op.RK)
			case "bad":
				return h.badErr(op.RK)
			case "wrapbad":
				return h.wrapErr(op.RK)
			case "panic":
				panic(h.pvals[op.RK%len(h.pvals)])
			}
			return nil
		}
	}
	var fbFn func(context.Context, error) error
	if cs.HasFb {
		fbFn = func(fctx context.Context, err error) error {
			h.add(fmt.Sprintf("OFbInvoked %d%%nat %s %s", id, h.retval(err), hc.B(fctx == ctx)),
				evRec{Kind: "fbinvoked", ID: id, Val: h.retval(err), B: fctx == ctx})
			rt.phase = "fb"
			h.settled <- struct{}{}
			op := <-rt.resume
			switch op.Res {
			case "fnil":
				return nil
			case "ferr":
				return h.fbErr(op.RK)
			case "fpanic":
				panic(h.pvals[op.RK%len(h.pvals)])
			}
			return nil
		}
	}
	go func() {
		var err error
		var pv interface{}
		panicked := false
		func() {
			defer func() {
				if r := recover(); r != nil {
					panicked, pv = true, r
				}
			}()
			switch cs.Entry {
			case "run":
				err = h.c.Run(ctx, runFn)
			case "go":
				err = h.c.Go(ctx, runFn, fbFn)
			default:
				err = h.c.Execute(ctx, runFn, fbFn)
			}
		}()
		after := rt.runCtx != nil && rt.runCtx.Err() != nil
		val := h.retval(err)
		if panicked {
			val = h.panicName(pv)
		}
		h.add(fmt.Sprintf("OReturned %d%%nat %s %s", id, val, hc.B(after)), evRec{Kind: "returned", ID: id, Val: val, B: after, B2: panicked})
		rt.phase = "done"
		h.settled <- struct{}{}
	}()
	h.waitSettled()
}

func (h *circRun) reading() {
	if h.params.Mode == "nil" {
		h.add(fmt.Sprintf("OReading %s 0 0", hc.B(h.c.IsOpen())), evRec{Kind: "reading", B: h.c.IsOpen()})
		return
	}
	o, a, b := h.c.IsOpen(), h.c.ConcurrentCommands(), h.c.ConcurrentFallbacks()
	h.add(fmt.Sprintf("OReading %s %s %s", hc.B(o), hc.Zi(a), hc.Zi(b)), evRec{Kind: "reading", B: o, Z: [3]int64{a, b, 0}})
}

// waitSettled / send: every hand-over between the driver and a parked call has a deadline, so that a library change
// which makes a call block (or lets a wall-clock deadline decide) shows as a failed case instead of a hung check.
func (h *circRun) waitSettled() {
	select {
	case <-h.settled:
	case <-time.After(15 * time.Second):
		h.hung = true
		panic("harness: a call neither parked nor returned within 15s")
	}
}

func (h *circRun) send(rt *callRt, o circOp) {
	select {
	case rt.resume <- o:
	case <-time.After(15 * time.Second):
		h.hung = true
		panic("harness: a parked call did not take its continuation within 15s")
	}
}

// do executes one event; returns the observations as one Coq list term.
func (h *circRun) do(o circOp) (out string, panicked bool) {
	if h.hung {
		return "[]", true
	}
	h.mu.Lock()
	h.log = nil
	h.mu.Unlock()
	func() {
		defer func() {
			if r := recover(); r != nil {
				panicked = true
				h.add("OReturned 9999%nat (VPanic 9999) false", evRec{Kind: "harness-panic", Val: fmt.Sprint(r)})
			}
		}()
		switch o.K {
		case "begin":
			h.script.allow, h.script.prevent = o.Call.Allow, o.Call.Prevent
			h.startCall(o.ID, *o.Call)
		case "endrun", "endfb":
			rt := h.calls[o.ID]
			want := "run"
			if o.K == "endfb" {
				want = "fb"
			}
			if rt == nil || rt.phase != want {
				break // ill-formed event: a no-op on both sides
			}
			h.script.so, h.script.sc = o.SO, o.SC
			h.send(rt, o)
			h.waitSettled()
		case "cancel":
			if rt := h.calls[o.ID]; rt != nil {
				rt.cancel()
			}
		case "open":
			h.c.OpenCircuit(context.Background())
		case "close":
			h.c.CloseCircuit(context.Background())
		case "setcfg":
			cfg := o.Live.config()
			h.c.SetConfigThreadSafe(cfg)
		case "tick":
			h.mu.Lock()
			h.now = h.now.Add(time.Duration(o.D))
			h.mu.Unlock()
		case "fire":
			h.mu.Lock()
			var f func()
			var t *time.Timer
			if int(o.D) < len(h.timers) {
				f, t = h.timers[o.D], h.live[o.D]
			}
			h.mu.Unlock()
			if f != nil {
				hc.FireTimer(t, f)
			}
		}
		h.reading()
	}()
	h.mu.Lock()
	out = hc.List(h.log)
	h.mu.Unlock()
	return out, panicked
}

// finish releases every goroutine still parked so that nothing leaks between cases.
func (h *circRun) finish() {
	defer func() { _ = recover() }()
	defer func() {
		h.mu.Lock()
		for _, t := range h.live {
			t.Stop()
		}
		h.mu.Unlock()
	}()
	if h.hung {
		for _, rt := range h.calls {
			rt.cancel()
		}
		return
	}
	for _, rt := range h.calls {
		for rt.phase == "run" || rt.phase == "fb" {
			if rt.phase == "run" {
				h.send(rt, circOp{K: "endrun", Res: "nil"})
			} else {
				h.send(rt, circOp{K: "endfb", Res: "fnil"})
			}
			h.waitSettled()
		}
		rt.cancel()
	}
}

// ---------------------------------------------------------------- Coq emission
func (l liveCfg) coq() string {
	ie := map[string]string{"": "IENil", "nil": "IENil", "true": "IETrue", "false": "IEFalse"}[l.IE]
	return fmt.Sprintf("{| l_disabled := %s; l_force_open := %s; l_forced_closed := %s; l_timeout := %s; l_max := %s; l_ignore_int := %s; l_ie := %s; l_fb_disabled := %s; l_fb_max := %s |}",
		hc.B(l.Disabled), hc.B(l.ForceOpen), hc.B(l.ForcedClosed), hc.Zi(l.Timeout), hc.Zi(l.Max), hc.B(l.IgnoreInt), ie, hc.B(l.FbDisabled), hc.Zi(l.FbMax))
}

func (o circOp) coq() string {
	switch o.K {
	case "begin":
		c := o.Call
		dl := "None"
		if c.Deadline != nil {
			dl = fmt.Sprintf("(Some (t0 + %s))", hc.Zi(*c.Deadline))
		}
		entry := map[string]string{"execute": "EExecute", "run": "ERun", "go": "EGo"}[c.Entry]
		return fmt.Sprintf("Begin %d%%nat {| c_has_run := %s; c_has_fb := %s; c_entry := %s; c_deadline := %s; c_done := %s; c_allow := %s; c_prevent := %s |}",
			o.ID, hc.B(c.HasRun), hc.B(c.HasFb), entry, dl, hc.B(c.Done), hc.B(c.Allow), hc.B(c.Prevent))
	case "endrun":
		res := map[string]string{"nil": "RNil", "err": fmt.Sprintf("(RErr %d)", o.RK), "bad": fmt.Sprintf("(RBad %d)", o.RK),
			"wrapbad": fmt.Sprintf("(RWrapBad %d)", o.RK), "panic": fmt.Sprintf("(RPanic %d)", o.RK%5)}[o.Res]
		return fmt.Sprintf("EndRun %d%%nat {| e_res := %s; e_should_open := %s; e_should_close := %s |}", o.ID, res, hc.B(o.SO), hc.B(o.SC))
	case "endfb":
		res := map[string]string{"fnil": "FNil", "ferr": fmt.Sprintf("(FErr %d)", o.RK), "fpanic": fmt.Sprintf("(FPanic %d)", o.RK%5)}[o.Res]
		return fmt.Sprintf("EndFb %d%%nat %s", o.ID, res)
	case "cancel":
		return fmt.Sprintf("Cancel %d%%nat", o.ID)
	case "open":
		return "OpenCircuit"
	case "close":
		return "CloseCircuit"
	case "setcfg":
		return "SetConfig " + o.Live.coq()
	case "tick":
		return "Tick " + hc.Zi(o.D)
	case "fire":
		return fmt.Sprintf("TimerFire %d%%nat", o.D)
	}
	return "Tick 0"
}

func (p circParams) coqHead() string {
	mode := map[string]string{"normal": "MNormal", "nil": "MNil", "zero": "MZero", "": "MNormal"}[p.Mode]
	var op, cl string
	switch p.Opener.Kind {
	case "hystrix":
		op = fmt.Sprintf("(OSHystrix %d %s %s %s)", p.Opener.N, hc.Zi(p.Opener.Dur), hc.Zi(p.Opener.Pct), hc.Zi(p.Opener.Vol))
	case "consec":
		op = fmt.Sprintf("(OSConsec %s)", hc.Zi(p.Opener.Thr))
	case "custom":
		op = "OSCustom"
	default:
		op = "OSNever"
	}
	switch p.Closer.Kind {
	case "hystrix":
		cl = fmt.Sprintf("(CSHystrix %s %s %s)", hc.Zi(p.Closer.Sleep), hc.Zi(p.Closer.HalfOpen), hc.Zi(p.Closer.Required))
	case "custom":
		cl = "CSCustom"
	default:
		cl = "CSNever"
	}
	return fmt.Sprintf("{| s_mode := %s; s_nrun := %d; s_nfb := %d; s_ncirc := %d |}, %s, %s, %s, t0",
		mode, p.NRun, p.NFb, p.NCirc, p.Live.coq(), op, cl)
}

func emitCirc(w io.Writer, f *hc.File, imports string) {
	fmt.Fprintln(w, "From CV Require Import Base.Prelude Seq.RollingCounter Seq.TimedCheck Seq.Logic Seq.Circuit Seq.CaseCheck Seq.CircuitCase"+imports+".")
	fmt.Fprintf(w, "Definition t0 : Z := %s.\n", hc.ZofTime(hc.T0))
	fmt.Fprintln(w, "Definition cases : list circ_case := [")
	for i, c := range f.Cases {
		var p circParams
		must(json.Unmarshal(c.Params, &p))
		var ops []string
		for _, raw := range c.Ops {
			var o circOp
			must(json.Unmarshal(raw, &o))
			ops = append(ops, o.coq())
		}
		sep := ";"
		if i == len(f.Cases)-1 {
			sep = ""
		}
		fmt.Fprintf(w, " (%d%%nat, %s,\n  %s,\n  %s)%s\n", c.ID, p.coqHead(), hc.List(ops), hc.List(c.Outs), sep)
	}
	fmt.Fprintln(w, "].")
	fmt.Fprintln(w, "Definition result := Eval vm_compute in circ_mismatches cases.")
	fmt.Fprintln(w, "Print result.")
}

// collectors of the decoy circuit: they record nothing
type inertRun struct{}

func (inertRun) Success(context.Context, time.Time, time.Duration)       {}
func (inertRun) ErrFailure(context.Context, time.Time, time.Duration)    {}
func (inertRun) ErrTimeout(context.Context, time.Time, time.Duration)    {}
func (inertRun) ErrBadRequest(context.Context, time.Time, time.Duration) {}
func (inertRun) ErrInterrupt(context.Context, time.Time, time.Duration)  {}
func (inertRun) ErrConcurrencyLimitReject(context.Context, time.Time)    {}
func (inertRun) ErrShortCircuit(context.Context, time.Time)              {}

type inertFb struct{}

func (inertFb) Success(context.Context, time.Time, time.Duration)    {}
func (inertFb) ErrFailure(context.Context, time.Time, time.Duration) {}
func (inertFb) ErrConcurrencyLimitReject(context.Context, time.Time) {}

type inertCirc struct{}

func (inertCirc) Opened(context.Context, time.Time) {}
func (inertCirc) Closed(context.Context, time.Time) {}
