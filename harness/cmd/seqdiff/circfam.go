package main

// Generator, executor and emitter of family "circ" (see circ.go for the runtime).

import (
	"encoding/json"
	"fmt"
	"io"
	"math/rand"
	"time"

	"verifharness/internal/hc"
)

type circFamily struct{}

func init() { families["circ"] = circFamily{} }

func circCase(p circParams, ops []circOp) *hc.Case {
	c := &hc.Case{Params: hc.Raw(p)}
	for _, o := range ops {
		c.Ops = append(c.Ops, hc.Raw(o))
	}
	return c
}

func i64p(v int64) *int64 { return &v }

const ms = int64(time.Millisecond)
const sec = int64(time.Second)

func drawParams(r *rand.Rand) circParams {
	var p circParams
	switch x := r.Intn(100); {
	case x < 4:
		p.Mode = "nil"
	case x < 8:
		p.Mode = "zero"
	default:
		p.Mode = "normal"
	}
	switch x := r.Intn(100); {
	case x < 12:
		p.Opener.Kind = "never"
	case x < 50:
		n := hc.Pick(r, 1, 2, 5, 10)
		p.Opener = openerSpec{Kind: "hystrix", N: n, Dur: int64(n) * hc.Pick(r, 1, 7, ms, 100*ms, sec),
			Pct: hc.Pick(r, int64(1), 29, 50, 50, 57, 100, 101, -5), Vol: hc.Pick(r, int64(1), 2, 3, 3, 5, -1)}
	case x < 70:
		p.Opener = openerSpec{Kind: "consec", Thr: hc.Pick(r, int64(1), 2, 3, 3, -1)}
	default:
		p.Opener.Kind = "custom"
	}
	switch x := r.Intn(100); {
	case x < 15:
		p.Closer.Kind = "never"
	case x < 70:
		p.Closer = closerSpec{Kind: "hystrix", Sleep: hc.Pick(r, ms, 10*ms, sec, 5*sec), HalfOpen: hc.Pick(r, int64(1), 1, 1, 2, 3, -1),
			Required: hc.Pick(r, int64(1), 1, 1, 2, 3, -2)}
	default:
		p.Closer.Kind = "custom"
	}
	p.Live = liveCfg{
		Timeout: hc.Pick(r, int64(-1), 1, ms, sec, sec, 0),
		Max:     hc.Pick(r, int64(-1), 1, 2, 2, 10, 0, 1<<63-1, -1<<63), // every limit: the ends of the int64 range too
		FbMax:   hc.Pick(r, int64(-1), 1, 1, 2, 10, 0, 1<<63-1, -1<<63),
		IE:      hc.Pick(r, "nil", "nil", "true", "false"),
	}
	if r.Intn(12) == 0 {
		p.Live.IgnoreInt = true
	}
	if r.Intn(20) == 0 {
		p.Live.ForceOpen = true
	}
	if r.Intn(20) == 0 {
		p.Live.ForcedClosed = true
	}
	if r.Intn(25) == 0 {
		p.Live.Disabled = true
	}
	if r.Intn(15) == 0 {
		p.Live.FbDisabled = true
	}
	p.NRun, p.NFb, p.NCirc = r.Intn(3), r.Intn(3), r.Intn(3)
	if p.Mode != "normal" {
		p.Opener, p.Closer = openerSpec{Kind: "never"}, closerSpec{Kind: "never"}
		p.Live = liveCfg{IE: "nil"}
		p.NRun, p.NFb, p.NCirc = 0, 0, 0
	}
	return p
}

func drawCall(r *rand.Rand, p *circParams, live *liveCfg) *callSpec {
	c := &callSpec{HasRun: r.Intn(20) != 0, HasFb: r.Intn(2) == 0, Entry: hc.Pick(r, "execute", "execute", "run", "go")}
	if hc.PastEpoch {
		c.Entry = hc.Pick(r, "execute", "run")
	}
	if p.Mode != "normal" || live.Disabled {
		c.HasRun = true // a nil run function on a pass-through circuit is a nil dereference (excluded by C08's text)
	}
	switch r.Intn(5) {
	case 0:
		c.Deadline = i64p(hc.Pick(r, int64(1), ms/2, 500*ms, 3600*sec)) // often earlier than start+Timeout
	case 1:
		c.Deadline = i64p(100000 * sec)
	}
	if hc.PastEpoch {
		c.Deadline = nil
	}
	if c.Entry != "go" && r.Intn(12) == 0 {
		c.Done = true
	}
	if p.Opener.Kind == "custom" {
		c.Prevent = r.Intn(10) == 0
	}
	if p.Closer.Kind == "custom" {
		c.Allow = r.Intn(2) == 0
	}
	return c
}

func drawEnd(r *rand.Rand, id int, failBias int) circOp {
	o := circOp{K: "endrun", ID: id, RK: r.Intn(10), SO: r.Intn(2) == 0, SC: r.Intn(2) == 0}
	switch x := r.Intn(100); {
	case x < failBias:
		o.Res = "err"
	case x < failBias+(100-failBias)*60/100:
		o.Res = "nil"
	case x < failBias+(100-failBias)*75/100:
		o.Res = "bad"
	case x < failBias+(100-failBias)*85/100:
		o.Res = "wrapbad"
	default:
		o.Res = "panic"
	}
	return o
}

func drawEndFb(r *rand.Rand, id int) circOp {
	return circOp{K: "endfb", ID: id, RK: r.Intn(10), Res: hc.Pick(r, "fnil", "fnil", "ferr", "ferr", "fpanic")}
}

func (circFamily) Gen(r *rand.Rand, i int, tier string) *hc.Case {
	p := drawParams(r)
	h := newCircRun(&p)
	p = h.params
	live := p.Live
	var ops []circOp
	do := func(o circOp) {
		ops = append(ops, o)
		h.do(o)
	}
	nops := 12 + r.Intn(40)
	nextID := 0
	phaseIDs := func(ph string) []int {
		var ids []int
		for id := 0; id < nextID; id++ {
			if rt := h.calls[id]; rt != nil && rt.phase == ph {
				ids = append(ids, id)
			}
		}
		return ids
	}
	tickChoices := func() []int64 {
		t := []int64{0, 1, 1, ms}
		if live.Timeout > 0 {
			t = append(t, live.Timeout-1, live.Timeout, live.Timeout+1)
		}
		if p.Closer.Kind == "hystrix" {
			t = append(t, p.Closer.Sleep-1, p.Closer.Sleep, p.Closer.Sleep+1, p.Closer.Sleep/2)
		}
		if p.Opener.Kind == "hystrix" && p.Opener.N > 0 {
			w := p.Opener.Dur / int64(p.Opener.N)
			t = append(t, w, w-1, p.Opener.Dur, p.Opener.Dur+w)
		}
		return t
	}
	normal := p.Mode == "normal"
	setBack := r.Intn(8) == 0 // a substitute clock that is sometimes set back (C12: behaviour follows the TimeKeeper, whatever it says)
	for len(ops) < nops {
		runIDs, fbIDs := phaseIDs("run"), phaseIDs("fb")
		open := normal && h.c.IsOpen()
		x := r.Intn(100)
		switch {
		case x < 22 && len(runIDs)+len(fbIDs) < 6:
			do(circOp{K: "begin", ID: nextID, Call: drawCall(r, &p, &live)})
			nextID++
		case x < 34: // a sequential call: begin and finish at once
			do(circOp{K: "begin", ID: nextID, Call: drawCall(r, &p, &live)})
			id := nextID
			nextID++
			if d := hc.Pick(r, int64(0), 0, 1, live.Timeout+1); d > 0 && r.Intn(4) == 0 {
				do(circOp{K: "tick", D: d})
			}
			if rt := h.calls[id]; rt != nil && rt.phase == "run" {
				bias := 45
				if open {
					bias = 25
				}
				do(drawEnd(r, id, bias))
			}
			if rt := h.calls[id]; rt != nil && rt.phase == "fb" {
				do(drawEndFb(r, id))
			}
		case x < 42 && normal && !open && (p.Opener.Kind == "hystrix" || p.Opener.Kind == "consec"):
			// a burst of failing calls sized around the opener's threshold
			k := int(p.Opener.Vol + p.Opener.Thr + int64(r.Intn(3)) - 1)
			if k < 1 {
				k = 1
			}
			if k > 8 {
				k = 8
			}
			for j := 0; j < k; j++ {
				do(circOp{K: "begin", ID: nextID, Call: &callSpec{HasRun: true, Entry: "run"}})
				id := nextID
				nextID++
				if rt := h.calls[id]; rt != nil && rt.phase == "run" {
					res := "err"
					if r.Intn(4) == 0 {
						res = "nil"
					}
					do(circOp{K: "endrun", ID: id, Res: res, RK: r.Intn(3)})
				}
			}
		case x < 60 && len(runIDs) > 0:
			bias := 40
			if open {
				bias = 20
			}
			do(drawEnd(r, runIDs[r.Intn(len(runIDs))], bias))
		case x < 68 && len(fbIDs) > 0:
			do(drawEndFb(r, fbIDs[r.Intn(len(fbIDs))]))
		case x < 78:
			tc := tickChoices()
			d := tc[r.Intn(len(tc))]
			if d < 0 {
				d = 0
			}
			if setBack && r.Intn(3) == 0 {
				d = -hc.Pick(r, int64(1), ms, sec, 3*sec)
			}
			do(circOp{K: "tick", D: d})
		case x < 84 && normal:
			n := len(h.timers)
			if n > 0 {
				k := n - 1
				if r.Intn(5) == 0 {
					k = r.Intn(n)
				}
				do(circOp{K: "fire", D: int64(k)})
			}
		case x < 88 && normal:
			do(circOp{K: hc.Pick(r, "open", "close")})
		case x < 93 && normal:
			nl := live
			switch r.Intn(9) {
			case 0:
				nl.ForceOpen = !nl.ForceOpen
			case 1:
				nl.ForcedClosed = !nl.ForcedClosed
			case 2:
				nl.Disabled = !nl.Disabled
			case 3:
				nl.Max = hc.Pick(r, int64(-1), 0, 1, 2, 10, 1<<63-1)
			case 4:
				nl.FbMax = hc.Pick(r, int64(-1), 0, 1, 2, 1<<63-1)
			case 5:
				nl.Timeout = hc.Pick(r, int64(-1), 0, 1, ms, sec)
			case 6:
				nl.IgnoreInt = !nl.IgnoreInt
			case 7:
				nl.FbDisabled = !nl.FbDisabled
			case 8:
				nl.IE = hc.Pick(r, "nil", "true", "false")
			}
			live = nl
			cp := nl
			do(circOp{K: "setcfg", Live: &cp})
		case x < 96:
			var cand []int
			for _, id := range append(runIDs, fbIDs...) {
				if h.calls[id].spec.Entry != "go" {
					cand = append(cand, id)
				}
			}
			if len(cand) > 0 {
				do(circOp{K: "cancel", ID: cand[r.Intn(len(cand))]})
			}
		default:
			// probe after the sleep window
			if normal && open && p.Closer.Kind == "hystrix" {
				do(circOp{K: "tick", D: p.Closer.Sleep + int64(r.Intn(2))})
				if n := len(h.timers); n > 0 {
					do(circOp{K: "fire", D: int64(n - 1)})
				}
			}
		}
	}
	// finish everything still in flight so that the final reading shows the gauges at rest
	for _, id := range phaseIDs("run") {
		do(circOp{K: "endrun", ID: id, Res: hc.Pick(r, "nil", "err", "panic"), RK: r.Intn(3)})
	}
	for _, id := range phaseIDs("fb") {
		do(circOp{K: "endfb", ID: id, Res: hc.Pick(r, "fnil", "ferr", "fpanic"), RK: r.Intn(3)})
	}
	h.finish()
	c := circCase(p, ops)
	if p.Mode != "normal" {
		c.Kind = "edge"
	}
	return c
}

func (circFamily) Corpus(tier string) []*hc.Case {
	all := circCorpus()
	if !hc.PastEpoch {
		return all
	}
	var keep []*hc.Case // past epoch: no Go entry point, no caller deadlines (see hc.PastEpoch)
	for _, c := range all {
		ok := true
		for _, raw := range c.Ops {
			var o circOp
			must(json.Unmarshal(raw, &o))
			if o.Call != nil && (o.Call.Entry == "go" || o.Call.Deadline != nil) {
				ok = false
			}
		}
		if ok {
			keep = append(keep, c)
		}
	}
	return keep
}

func (circFamily) Exec(c *hc.Case) {
	var p circParams
	must(json.Unmarshal(c.Params, &p))
	h := newCircRun(&p)
	c.Params = hc.Raw(h.params) // effective settings after the library merged its defaults
	var ops []circOp
	for _, raw := range c.Ops {
		var o circOp
		must(json.Unmarshal(raw, &o))
		ops = append(ops, o)
	}
	tags := map[string]bool{}
	bounds := []int{}
	clocks := []time.Time{}
	for _, o := range ops {
		clocks = append(clocks, h.Now())
		out, _ := h.do(o)
		c.Outs = append(c.Outs, out)
		bounds = append(bounds, len(h.ev))
	}
	h.finish()
	if h.hung {
		c.Viol = append(c.Viol, hc.Violation{Clause: "C12: a circuit driven by a substitute clock behaves identically whatever the wall clock says", Detail: "a call neither parked in the harness's function nor returned within 15 s of being driven (it blocked, or something other than the substitute clock decided its fate)", AtOp: len(c.Outs) - 1})
		c.Viol = append(c.Viol, hc.Violation{Clause: "C18: Go returns as soon as the run function finishes, or as soon as the caller's context or the execution timeout ends", Detail: "a call neither parked nor returned within 15 s of being driven", AtOp: len(c.Outs) - 1})
		tags["harness:hung"] = true
	}
	circMonitors(c, h, ops, bounds, clocks, tags)
	asIfAbsent(c, &p, ops, tags)
	if c.ID%8 == 0 {
		panicProbe(c, tags)
	}
	if c.ID%8 == 1 {
		foreignCtxProbe(c, tags)
	}
	if c.ID%8 == 2 {
		zeroDeadlineProbe(c, tags)
	}
	if c.ID%8 == 3 {
		nilPanicProbe(c, tags)
	}
	for t := range tags {
		c.Tags = append(c.Tags, t)
	}
	c.Tags = append(c.Tags, "opener:"+p.Opener.Kind, "closer:"+p.Closer.Kind, "mode:"+p.Mode)
}

func (circFamily) Emit(w io.Writer, f *hc.File) { emitCirc(w, f, "") }

var _ = fmt.Sprint

// asIfAbsent is the monitor of C10's last clause: "later calls behave as if the
// panicking call had not happened".  For the first call whose run function
// panicked it re-executes the history without that call and compares everything
// observed after the panic.
func asIfAbsent(c *hc.Case, p *circParams, ops []circOp, tags map[string]bool) {
	if p.Mode != "normal" {
		return
	}
	pid, endIdx := -1, -1
	for i, o := range ops {
		if o.K == "endrun" && o.Res == "panic" {
			// only a well-formed end: the call must have begun earlier and not ended yet
			// only a call whose Begin and panicking EndRun are separated by clock ticks alone: any other
			// event in between may legitimately have been influenced by the call being in flight
			begun := false
			for j := i - 1; j >= 0; j-- {
				if ops[j].K == "begin" && ops[j].ID == o.ID {
					begun = true
					break
				}
				if ops[j].K != "tick" {
					break
				}
			}
			if begun {
				pid, endIdx = o.ID, i
				break
			}
		}
	}
	if pid < 0 {
		return
	}
	run := func(skip bool) ([]string, bool, bool) {
		q := *p
		h := newCircRun(&q)
		var outs []string
		invoked, probe := false, false
		for i, o := range ops {
			if skip && (o.K == "begin" || o.K == "endrun" || o.K == "endfb" || o.K == "cancel") && o.ID == pid {
				continue
			}
			wasOpen := h.c.IsOpen()
			n0 := len(h.ev)
			out, _ := h.do(o)
			if !skip && o.K == "begin" && o.ID == pid {
				for _, e := range h.ev[n0:] {
					if e.Kind == "invoked" {
						invoked = true
						probe = wasOpen
					}
				}
			}
			if i > endIdx {
				outs = append(outs, out)
			}
		}
		h.finish()
		return outs, invoked, probe
	}
	with, invoked, probe := run(false)
	if !invoked {
		return // the panicking EndRun was a no-op (call was rejected or passed through)
	}
	without, _, _ := run(true)
	tags["c10:as_if_absent_checked"] = true
	for i := range with {
		if i >= len(without) || with[i] != without[i] {
			if probe {
				tags["known:D11"] = true
			}
			c.Viol = append(c.Viol, hc.Violation{Clause: "C10: later calls behave as if the panicking call had not happened",
				Detail: fmt.Sprintf("call %d panicked (half-open probe: %v); %d events later the history differs from the one without it: %s vs %s", pid, probe, i+1, with[i], without[i]), AtOp: endIdx + 1 + i})
			return
		}
	}
}
