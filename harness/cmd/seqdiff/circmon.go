package main

import (
	"verifharness/internal/hc"
)

func circCorpus() []*hc.Case { return nil }

// circMonitors evaluates the properties' own statements on what the
// implementation did (independent of the Coq model).
func circMonitors(c *hc.Case, h *circRun, ops []circOp, bounds []int, tags map[string]bool) {
	for _, e := range h.ev {
		switch e.Kind {
		case "run":
			tags["run:"+e.K] = true
		case "fb":
			tags["fb:"+e.K] = true
		case "circ":
			tags["circ:"+e.K] = true
		case "returned":
			if e.B2 {
				tags["panic"] = true
			}
		}
	}
}
