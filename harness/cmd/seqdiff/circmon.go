package main

// Property monitors of family "circ": each evaluates a property's OWN statement
// on what the implementation did, with a few lines of bookkeeping and without
// the Coq model.  They are the search for a concrete failing input; clauses are
// prefixed with the property id so that each check reads only its own.

import (
	"strings"
	"fmt"
	"time"

	"verifharness/internal/hc"
)

type monCall struct {
	spec       callSpec
	begun      bool
	enabled    bool // the circuit was constructed and not disabled when the call began
	vetoed     bool
	shed       bool
	throttled  bool
	invoked    int
	fbInvoked  int
	returned   int
	retVal     string
	panicked   bool
	runPanic   bool
	fbPanic    bool
	startClock time.Time
	timeoutAt  int64 // Execution.Timeout in force at Begin
	derived    bool
	runEvents  map[string][]evRec
	fbEvents   map[string][]evRec
	endRes     string
	endRK      int
	fbRes      string
	fbRK       int
	fbStart    time.Time
	fbErr      string
	doneAtEnd  bool
	ended      bool
	inRun      bool
	inFb       bool
	fbChecked  bool
}

func circMonitors(c *hc.Case, h *circRun, ops []circOp, bounds []int, clocks []time.Time, tags map[string]bool) {
	p := h.params
	backwards := false
	for _, o := range ops {
		if o.K == "tick" && o.D < 0 {
			backwards = true
		}
	}
	if backwards {
		tags["clock:set_back"] = true
	}
	viol := func(i int, clause, detail string, a ...interface{}) {
		if backwards && (strings.HasPrefix(clause, "C02:") || strings.HasPrefix(clause, "C03:")) {
			return // these clauses speak of clock ADVANCES; a clock that was set back is exercised for C12 only
		}
		if len(c.Viol) < 12 {
			c.Viol = append(c.Viol, hc.Violation{Clause: clause, Detail: fmt.Sprintf(detail, a...), AtOp: i})
		}
	}
	live := p.Live
	normal := p.Mode == "normal"
	calls := map[int]*monCall{}
	prevOpen := h.initOpen
	circLog := map[string][]string{}
	lastNote := ""
	inRun, inFb := int64(0), int64(0)
	// C03 bookkeeping (hystrix closer)
	var openedAt time.Time
	haveOpened := false
	var probeStamps []time.Time
	consecSucc := int64(0)
	// C02 bookkeeping
	type oc struct {
		k string
		t time.Time
	}
	var sinceTransition []oc
	openerStart := hc.T0

	runCollectors := []string{"WCloser", "WOpener"}
	for i := 0; i < p.NRun; i++ {
		runCollectors = append(runCollectors, fmt.Sprintf("(WUser %d%%nat)", i))
	}
	circCollectors := []string{"WCloser", "WOpener"}
	for i := 0; i < p.NCirc; i++ {
		circCollectors = append(circCollectors, fmt.Sprintf("(WUser %d%%nat)", i))
	}

	lo := 0
	for i, o := range ops {
		evs := h.ev[lo:bounds[i]]
		lo = bounds[i]
		now := clocks[i]
		overridden := live.ForceOpen || live.ForcedClosed
		var mc *monCall
		switch o.K {
		case "begin":
			mc = &monCall{spec: *o.Call, begun: true, enabled: normal && !live.Disabled, startClock: now, timeoutAt: live.Timeout,
				runEvents: map[string][]evRec{}, fbEvents: map[string][]evRec{}}
			calls[o.ID] = mc
		case "endrun", "endfb":
			mc = calls[o.ID]
			if mc != nil && o.K == "endrun" && mc.inRun {
				mc.endRes, mc.endRK, mc.ended = o.Res, o.RK, true
			}
			if mc != nil && o.K == "endfb" && mc.inFb {
				mc.fbRes, mc.fbRK = o.Res, o.RK
			}
		case "setcfg":
			live = *o.Live
		}
		succBefore, lastNoteBefore := consecSucc, lastNote
		stBefore := append([]oc{}, sinceTransition...)
		allowAsked, allowAns, preventAns := false, false, false
		shouldOpenAns, shouldOpenAsked := false, false
		opened, closed := false, false
		var segRun []evRec
		for _, e := range evs {
			switch e.Kind {
			case "answer":
				switch e.K {
				case "Allow":
					allowAsked, allowAns = true, e.B
				case "Prevent":
					preventAns = e.B
				case "ShouldOpen":
					shouldOpenAsked, shouldOpenAns = true, e.B
				}
			case "asked":
				if !e.T.Equal(now) {
					viol(i, "C12: every time value passed to the opener and closer is a reading of the configured TimeKeeper taken during that call", "%s got %v, clock %v", e.K, e.T, now)
				}
			case "invoked":
				if mc == nil {
					break
				}
				mc.invoked++
				mc.inRun = true
				if mc.enabled {
					inRun++
				}
				tags["invoked"] = true
				mc.derived = e.B
				if mc.enabled {
					wantDerived := mc.timeoutAt > 0
					if e.B != wantDerived {
						viol(i, "C07: with Timeout > 0 the run function receives a derived context, with Timeout <= 0 the caller's context itself", "derived=%v timeout=%d", e.B, mc.timeoutAt)
					}
					var want *time.Time
					if mc.spec.Deadline != nil {
						t := hc.T0.Add(time.Duration(*mc.spec.Deadline))
						want = &t
					}
					if wantDerived {
						t := now.Add(time.Duration(mc.timeoutAt))
						if want == nil || t.Before(*want) {
							want = &t
						}
					}
					if (want == nil) != !e.HasD || (want != nil && !want.Equal(e.T)) {
						viol(i, "C07: the deadline is the earlier of the caller's deadline and call start plus Timeout", "deadline %v (has=%v) want %v", e.T, e.HasD, want)
					}
				} else if e.B {
					viol(i, "C08: a Disabled / nil / zero-value circuit runs the function with the caller's context", "derived context in pass-through mode")
				}
				if !e.B2 {
					viol(i, "C07: the derived context carries the caller's values", "value lost")
				}
			case "runend":
				if mc != nil {
					mc.doneAtEnd = e.B
				}
			case "fbinvoked":
				if mc == nil {
					break
				}
				mc.fbInvoked++
				mc.inFb = true
				mc.fbStart = now
				mc.fbErr = e.Val
				inFb++
				tags["fallback"] = true
				if !e.B {
					viol(i, "C07: the fallback always receives the caller's original context", "fallback got another context")
				}
			case "returned":
				if mc == nil {
					break
				}
				mc.returned++
				mc.retVal = e.Val
				mc.panicked = e.B2
				if mc.derived && mc.invoked > 0 && !e.B {
					viol(i, "C07: the derived context is released when the call returns", "run context still live after return")
				}
			case "run":
				segRun = append(segRun, e)
				tags["run:"+e.K] = true
				if mc != nil {
					mc.runEvents[e.Who] = append(mc.runEvents[e.Who], e)
				}
				if !e.T.Equal(now) {
					viol(i, "C12: every time value passed to collectors is a reading of the configured TimeKeeper taken during that call", "run event %s at %v, clock %v", e.K, e.T, now)
				}
				if e.HasD && mc != nil && e.D != now.Sub(mc.startClock) {
					viol(i, "C12: every reported duration is the difference of two readings of the TimeKeeper", "duration %v want %v", e.D, now.Sub(mc.startClock))
				}
				if e.Who == "WOpener" {
					sinceTransition = append(sinceTransition, oc{e.K, e.T})
					switch e.K {
					case "KSuccess":
						consecSucc++
					case "KFailure", "KTimeout":
						consecSucc = 0
					}
				}
			case "fb":
				tags["fb:"+e.K] = true
				if mc != nil {
					mc.fbEvents[e.Who] = append(mc.fbEvents[e.Who], e)
					want := now
					if e.HasD {
						want = mc.fbStart
						if e.D != now.Sub(mc.fbStart) {
							viol(i, "C12: every reported duration is the difference of two readings of the TimeKeeper", "fallback duration %v want %v", e.D, now.Sub(mc.fbStart))
						}
					}
					if !e.T.Equal(want) {
						viol(i, "C12: every time value passed to collectors is a reading of the configured TimeKeeper taken during that call", "fallback event at %v want %v", e.T, want)
					}
				}
			case "circ":
				tags["circ:"+e.K] = true
				circLog[e.Who] = append(circLog[e.Who], e.K)
				if !e.T.Equal(now) {
					viol(i, "C12: every time value on every entry point including OpenCircuit and CloseCircuit is a reading of the configured TimeKeeper", "%s at %v, clock %v", e.K, e.T, now)
				}
				if e.Who == "WCloser" {
					lastNote = e.K
					sinceTransition = nil
					consecSucc = 0
					if e.K == "Opened" {
						opened, haveOpened, openedAt = true, true, now
						probeStamps = nil
					} else {
						closed = true
					}
				}
			}
		}
		// ---- per-event checks
		var rd evRec
		for _, e := range evs {
			if e.Kind == "reading" {
				rd = e
			}
		}
		if o.K == "begin" && mc != nil && mc.enabled && mc.spec.HasRun {
			admittedByCloser := allowAsked && allowAns
			if prevOpen && mc.invoked > 0 && !admittedByCloser {
				viol(i, "C01: while a circuit is open and its close logic does not admit the call, the run function is never invoked", "invoked while IsOpen and Allow asked=%v answered=%v", allowAsked, allowAns)
			}
			if live.ForceOpen && mc.invoked > 0 {
				viol(i, "C08: ForceOpen rejects every call regardless of the close logic", "run function invoked under ForceOpen")
			}
			if preventAns && mc.invoked > 0 {
				viol(i, "C01: when the open logic vetoes the call the run function is never invoked", "invoked after Prevent=true")
			}
			if p.Opener.Kind == "custom" && mc.spec.Prevent && mc.invoked > 0 {
				viol(i, "C01: when the open logic vetoes the call the run function is never invoked", "the custom opener vetoes this call (its Prevent answers true) yet the run function was invoked (Prevent asked: %v)", preventAns)
			}
			mc.vetoed = preventAns
			if prevOpen && !admittedByCloser {
				mc.shed = true
				tags["shed"] = true
				for _, w := range runCollectors {
					if len(mc.runEvents[w]) != 1 || mc.runEvents[w][0].K != "KShort" {
						viol(i, "C01: a rejection caused by the open state records exactly one short-circuit event and no other run event", "collector %s saw %d run events", w, len(mc.runEvents[w]))
					}
				}
				okRes := mc.fbInvoked == 1 && mc.fbErr == "VCircuitOpen" || mc.returned == 1 && (mc.retVal == "VCircuitOpen" || mc.retVal == "VFbThrottled")
				if !okRes {
					viol(i, "C01: the caller receives an error reporting CircuitOpen()==true, or the fallback's result with that error handed to the fallback", "returned=%d val=%s fb=%d fbErr=%s", mc.returned, mc.retVal, mc.fbInvoked, mc.fbErr)
				}
			}
			if live.ForcedClosed && !live.ForceOpen && mc.shed {
				viol(i, "C08: ForcedClosed admits every call subject only to the concurrency limit", "call shed under ForcedClosed")
			}
			if mc.invoked == 0 && !mc.shed && !mc.vetoed {
				mc.throttled = true
				tags["throttled"] = true
				if live.Max < 0 {
					viol(i, "C04: a negative limit means unlimited", "call refused with limit %d", live.Max)
				}
				if mc.returned == 1 && mc.retVal != "VThrottled" && mc.retVal != "VFbThrottled" || mc.fbInvoked == 1 && mc.fbErr != "VThrottled" {
					viol(i, "C04: a call refused for the concurrency limit returns an error reporting ConcurrencyLimitReached()==true", "val=%s fbErr=%s", mc.retVal, mc.fbErr)
				}
				for _, w := range runCollectors {
					if len(mc.runEvents[w]) != 1 || mc.runEvents[w][0].K != "KReject" {
						viol(i, "C04: a refused call records exactly one rejection event", "collector %s saw %d run events", w, len(mc.runEvents[w]))
					}
				}
			}
			if mc.invoked > 0 && live.Max >= 0 && inRun > live.Max {
				viol(i, "C04: at no instant are more than MaxConcurrentRequests run functions in flight", "%d in flight, limit %d", inRun, live.Max)
			}
			if haveOpened && prevOpen && p.Closer.Kind == "hystrix" && !live.ForcedClosed && mc.invoked > 0 {
				if now.Before(openedAt.Add(time.Duration(p.Closer.Sleep))) {
					viol(i, "C03: no call that starts after the opening and within SleepWindow of it runs the protected function", "ran at +%v, SleepWindow %v", now.Sub(openedAt), time.Duration(p.Closer.Sleep))
				}
				probeStamps = append(probeStamps, now)
				k := p.Closer.HalfOpen
				if k < 1 {
					k = 1
				}
				if n := int64(len(probeStamps)); n > k {
					if probeStamps[n-1].Sub(probeStamps[n-1-k]) < time.Duration(p.Closer.Sleep) {
						viol(i, "C03: while it stays open, the calls admitted in any time span shorter than SleepWindow number at most max(1, HalfOpenAttempts)", "%d admissions within %v", k+1, probeStamps[n-1].Sub(probeStamps[n-1-k]))
					}
				}
				tags["probe"] = true
			}
		}
		if o.K == "begin" && mc != nil && !mc.enabled {
			if len(segRun) > 0 || mc.fbInvoked > 0 {
				viol(i, "C08: a Disabled, nil or zero-value circuit produces no events, limits or fallback", "events in pass-through mode")
			}
		}
		justEnded := false
		if mc != nil && o.K == "endrun" && mc.inRun && mc.ended {
			mc.inRun = false
			if mc.enabled {
				inRun--
			}
			justEnded = true
		}
		if mc != nil && o.K == "endfb" && mc.inFb && mc.fbRes != "" {
			mc.inFb = false
			inFb--
		}
		// classification of a completed run (C05) and the return contract (C06)
		if mc != nil && justEnded && mc.enabled && mc.endRes != "" {
			res := mc.endRes
			if res == "panic" {
				mc.runPanic = true
				tags["panic"] = true
				for _, w := range runCollectors {
					if len(mc.runEvents[w]) != 0 {
						viol(i, "C10: no run event has been recorded for the panicking function", "collector %s saw %s", w, mc.runEvents[w][0].K)
					}
				}
				if mc.retVal != fmt.Sprintf("(VPanic %d)", mc.endRK%5) {
					viol(i, "C10: a panic reaches the caller with the same panic value", "got %s want (VPanic %d)", mc.retVal, mc.endRK%5)
				}
				if opened || closed {
					viol(i, "C10: after a panic the open/closed state is unchanged", "transition during a panicking call")
				}
			} else {
				want := "KSuccess"
				elapsed := now.Sub(mc.startClock)
				switch {
				case res == "bad" || res == "wrapbad":
					want = "KBadRequest"
				case mc.timeoutAt > 0 && elapsed > time.Duration(mc.timeoutAt):
					want = "KTimeout"
				case res != "nil" && mc.doneAtEnd && !live.IgnoreInt && live.IE != "false":
					want = "KInterrupt"
				case res != "nil":
					want = "KFailure"
				}
				for _, w := range runCollectors {
					if len(mc.runEvents[w]) != 1 {
						viol(i, "C05: each call produces exactly one run event, delivered identically to the opener, the closer and every collector", "collector %s saw %d run events", w, len(mc.runEvents[w]))
					} else if mc.runEvents[w][0].K != want {
						viol(i, "C05: the kind follows the precedence order bad request, timeout, caller interrupt, failure, success", "collector %s saw %s want %s", w, mc.runEvents[w][0].K, want)
					}
				}
				// C06
				fbAvail := mc.spec.HasFb && mc.spec.Entry != "run" && !live.FbDisabled
				switch {
				case res == "nil":
					if mc.retVal != "VNil" || mc.fbInvoked != 0 {
						viol(i, "C06: Execute returns nil exactly when the run function returned nil", "got %s fb=%d", mc.retVal, mc.fbInvoked)
					}
				case res == "bad" || res == "wrapbad":
					wantV := fmt.Sprintf("(VBad %d)", mc.endRK)
					if res == "wrapbad" {
						wantV = fmt.Sprintf("(VWrapBad %d)", mc.endRK)
					}
					if mc.retVal != wantV || mc.fbInvoked != 0 {
						viol(i, "C06: bad requests never reach the fallback and are returned unchanged", "got %s fb=%d", mc.retVal, mc.fbInvoked)
					}
				default:
					wantV := fmt.Sprintf("(VRun %d)", mc.endRK)
					if !fbAvail {
						if mc.retVal != wantV {
							viol(i, "C06: in every other case the run step's own error value is returned unchanged", "got %s want %s", mc.retVal, wantV)
						}
					} else if mc.fbInvoked == 1 {
						if mc.fbErr != wantV {
							viol(i, "C06: the fallback receives that very error", "fallback got %s want %s", mc.fbErr, wantV)
						}
					} else if mc.retVal != "VFbThrottled" {
						viol(i, "C06: when the fallback limit is exhausted a ConcurrencyLimitReached error is returned without invoking it", "got %s", mc.retVal)
					}
				}
			}
		}
		if mc != nil && o.K == "endfb" && mc.fbRes != "" && mc.returned > 0 && !mc.fbChecked {
			mc.fbChecked = true
			want := map[string]string{"fnil": "VNil", "ferr": fmt.Sprintf("(VFb %d)", mc.fbRK), "fpanic": fmt.Sprintf("(VPanic %d)", mc.fbRK%5)}[mc.fbRes]
			if mc.retVal != want {
				viol(i, "C06: Execute returns exactly the fallback's result", "got %s want %s", mc.retVal, want)
			}
			nfb := 0
			for _, l := range mc.fbEvents {
				nfb += len(l)
			}
			wantN := p.NFb
			if mc.fbRes == "fpanic" {
				wantN = 0
			}
			if nfb != wantN {
				viol(i, "C05: each fallback attempt produces exactly one of success, failure or rejection", "%d fallback events for %d collectors", nfb, p.NFb)
			}
		}
		if mc != nil && (mc.invoked > 1 || mc.fbInvoked > 1 || mc.returned > 1) {
			viol(i, "C06: Execute invokes the run function at most once and the fallback at most once", "invoked=%d fb=%d returned=%d", mc.invoked, mc.fbInvoked, mc.returned)
		}
		// gauges (C04) at call granularity
		if normal && rd.Kind == "reading" {
			if rd.Z[0] != inRun || rd.Z[1] != inFb {
				viol(i, "C04: ConcurrentCommands/ConcurrentFallbacks equal the number of run functions/fallbacks in flight (zero once all calls have returned)", "gauges %d/%d, in flight %d/%d", rd.Z[0], rd.Z[1], inRun, inFb)
			}
			// overrides and notifications
			if live.ForceOpen && !rd.B {
				viol(i, "C08: ForceOpen makes IsOpen true", "IsOpen false")
			}
			if live.ForcedClosed && !live.ForceOpen && rd.B {
				viol(i, "C08: ForcedClosed makes IsOpen false", "IsOpen true")
			}
			if overridden && o.K != "setcfg" && (opened || closed) {
				viol(i, "C08: an override keeps failures, successes and OpenCircuit/CloseCircuit from changing the underlying state", "transition under override")
			}
			if !live.ForceOpen && !live.ForcedClosed {
				if rd.B != (lastNote == "Opened") {
					viol(i, "C09: whenever the circuit is quiescent and not overridden IsOpen is true exactly when the last notification was Opened", "IsOpen=%v last=%q", rd.B, lastNote)
				}
			}
			prevOpenBefore := prevOpen
			prevOpen = rd.B
			// C02: did the circuit open exactly when the documented rule says
			if justEnded && mc.endRes != "panic" && !prevOpenBefore && !overridden && len(segRun) > 0 &&
				(segRun[0].K == "KFailure" || segRun[0].K == "KTimeout") {
				wantOpen, decided := false, false
				switch p.Opener.Kind {
				case "hystrix":
					if p.Opener.N > 0 && p.Opener.Dur/int64(p.Opener.N) > 0 {
						w := p.Opener.Dur / int64(p.Opener.N)
						idx := func(t time.Time) int64 { return int64(t.Sub(openerStart)) / w }
						atts, errs := int64(0), int64(0)
						for _, x := range append(append([]oc{}, stBefore...), oc{segRun[0].K, segRun[0].T}) {
							if idx(x.t) > idx(now)-int64(p.Opener.N) {
								switch x.k {
								case "KSuccess":
									atts++
								case "KFailure", "KTimeout":
									atts++
									errs++
								}
							}
						}
						wantOpen, decided = atts >= p.Opener.Vol && 100*errs >= p.Opener.Pct*atts, true
						tags["c02:hystrix_decision"] = true
					}
				case "consec":
					n := int64(0)
					hist := append(append([]oc{}, stBefore...), oc{segRun[0].K, segRun[0].T})
					for j := len(hist) - 1; j >= 0; j-- {
						k := hist[j].k
						if k == "KFailure" || k == "KTimeout" {
							n++
						} else if k == "KSuccess" {
							break
						}
					}
					wantOpen, decided = n >= p.Opener.Thr, true
					tags["c02:consec_decision"] = true
				}
				// sinceTransition was cleared if the circuit opened in this segment: recompute from shouldOpen's own answer
				if decided && !opened && wantOpen {
					viol(i, "C02: the circuit opens at the completion of a failed or timed-out call if and only if the documented threshold is met", "threshold met but the circuit stayed closed (ShouldOpen asked=%v answered=%v)", shouldOpenAsked, shouldOpenAns)
				}
				if decided && opened && !wantOpen && !backwards {
					viol(i, "C02: the circuit opens at the completion of a failed or timed-out call if and only if the documented threshold is met", "the circuit opened though the threshold is not met by the outcomes since the last transition inside the window")
				}
				if opened {
					tags["c02:opened"] = true
				}
			}
		}
		if justEnded && normal && p.Closer.Kind == "hystrix" && len(segRun) > 0 {
			k := segRun[0].K
			if (k == "KFailure" || k == "KTimeout") && closed {
				viol(i, "C03: a failed probe leaves it open", "closed on %s", k)
			}
			// calls completing one at a time: it closes, unless forced open, exactly when max(1, Required) successes have
			// completed since the opening with no failure or timeout in between
			if k == "KSuccess" && lastNoteBefore == "Opened" && !live.ForceOpen && !live.ForcedClosed && inRun == 0 && o.K == "endrun" {
				need := p.Closer.Required
				if need < 1 {
					need = 1
				}
				want := succBefore+1 >= need
				if want != closed {
					viol(i, "C03: for calls completing one at a time it closes, unless forced open, exactly when max(1, RequiredConcurrentSuccessful) successes have completed since the opening with no failure or timeout in between",
						"%d consecutive successes since the opening, required %d, closed=%v", succBefore+1, need, closed)
				}
				tags["c03:close_decision"] = true
			}
		}
	}
	// whole-history checks
	for _, w := range circCollectors {
		l := circLog[w]
		for j, k := range l {
			want := "Opened"
			if j%2 == 1 {
				want = "Closed"
			}
			if k != want {
				viol(len(ops)-1, "C09: the notifications strictly alternate starting with Opened", "collector %s: %v", w, l)
				break
			}
		}
		if len(l) != len(circLog["WCloser"]) {
			viol(len(ops)-1, "C09: circuit-level collectors, the opener and the closer are told each transition exactly once", "collector %s saw %d, closer %d", w, len(l), len(circLog["WCloser"]))
		}
	}
	if normal && (inRun != 0 || inFb != 0) {
		// the generator always finishes every call; anything else is a harness bookkeeping error, not a finding
		tags["unfinished"] = true
	}
	for id, mc := range calls {
		_ = id
		if mc.enabled && mc.spec.HasRun && !mc.vetoed && !mc.runPanic && (mc.ended || mc.shed || mc.throttled) {
			var ref []evRec
			for wi, w := range runCollectors {
				if wi == 0 {
					ref = mc.runEvents[w]
					continue
				}
				l := mc.runEvents[w]
				if len(l) != len(ref) || (len(l) > 0 && (l[0].K != ref[0].K || !l[0].T.Equal(ref[0].T) || l[0].D != ref[0].D)) {
					viol(len(ops)-1, "C05: the run event is delivered identically to the opener, the closer and every configured collector", "collector %s differs", w)
				}
			}
		}
	}
}
