package main

import "verifharness/internal/hc"

// circCorpus: minimised regression histories, one per repaired or known defect
// (DESIGN.md section 3); they run first on every check.
func circCorpus() []*hc.Case {
	var cs []*hc.Case
	lv := liveCfg{Timeout: -1, Max: 10, FbMax: 10, IE: "nil"}
	seqCall := func(ops *[]circOp, id int, res string) {
		*ops = append(*ops, circOp{K: "begin", ID: id, Call: &callSpec{HasRun: true, Entry: "execute"}}, circOp{K: "endrun", ID: id, Res: res})
	}
	// D1: ForceOpen with a hystrix closer whose (never armed) TimedCheck would admit
	{
		l := lv
		l.ForceOpen = true
		var ops []circOp
		for i := 0; i < 3; i++ {
			seqCall(&ops, i, "nil")
			ops = append(ops, circOp{K: "tick", D: 2 * sec})
		}
		cs = append(cs, circCase(circParams{Mode: "normal", Opener: openerSpec{Kind: "never"}, Closer: closerSpec{Kind: "hystrix", Sleep: sec, HalfOpen: 1, Required: 1}, Live: l, NRun: 1}, ops))
	}
	// D2: 29 failures out of 100 attempts at ErrorThresholdPercentage 29 must open
	for _, pct := range []int64{29, 57} {
		var ops []circOp
		id := 0
		for i := int64(0); i < 100-pct; i++ {
			seqCall(&ops, id, "nil")
			id++
		}
		for i := int64(0); i < pct; i++ {
			seqCall(&ops, id, "err")
			id++
		}
		cs = append(cs, circCase(circParams{Mode: "normal", Opener: openerSpec{Kind: "hystrix", N: 10, Dur: 10 * sec, Pct: pct, Vol: 100}, Closer: closerSpec{Kind: "never"}, Live: lv}, ops))
	}
	// the opener's window after a transition AND a full roll-over: outcomes from before the transition must neither count
	// nor be subtracted twice when their buckets leave the window (volume 3: three failures open; close; 10.5 s later
	// three failures must open again)
	{
		var ops []circOp
		for i := 0; i < 3; i++ {
			seqCall(&ops, i, "err")
		}
		ops = append(ops, circOp{K: "tick", D: sec}, circOp{K: "close"}, circOp{K: "tick", D: 9*sec + sec/2})
		for i := 3; i < 6; i++ {
			seqCall(&ops, i, "err")
		}
		cs = append(cs, circCase(circParams{Mode: "normal", Opener: openerSpec{Kind: "hystrix", N: 10, Dur: 10 * sec, Pct: 50, Vol: 3}, Closer: closerSpec{Kind: "never"}, Live: lv}, ops))
	}
	// the interrupt predicate replaced and then REMOVED by live reconfigurations: each call is judged by the predicate
	// in force when it completes (none = every such error is an interrupt)
	{
		l := lv
		l.IE = "false"
		intr := func(ops *[]circOp, id int) {
			*ops = append(*ops, circOp{K: "begin", ID: id, Call: &callSpec{HasRun: true, Entry: "execute"}}, circOp{K: "cancel", ID: id}, circOp{K: "endrun", ID: id, Res: "err", RK: id})
		}
		var ops []circOp
		intr(&ops, 0)
		l2 := l
		l2.IE = "nil"
		ops = append(ops, circOp{K: "setcfg", Live: &l2})
		intr(&ops, 1)
		l3 := l
		l3.IE = "true"
		ops = append(ops, circOp{K: "setcfg", Live: &l3})
		intr(&ops, 2)
		ops = append(ops, circOp{K: "setcfg", Live: &l2})
		intr(&ops, 3)
		l4 := l
		ops = append(ops, circOp{K: "setcfg", Live: &l4})
		intr(&ops, 4)
		cs = append(cs, circCase(circParams{Mode: "normal", Opener: openerSpec{Kind: "never"}, Closer: closerSpec{Kind: "never"}, Live: l, NRun: 1}, ops))
	}
	// D7: OpenCircuit / CloseCircuit stamp notifications with the circuit's clock
	cs = append(cs, circCase(circParams{Mode: "normal", Opener: openerSpec{Kind: "hystrix", N: 10, Dur: 10 * sec, Pct: 50, Vol: 20}, Closer: closerSpec{Kind: "hystrix", Sleep: sec, HalfOpen: 1, Required: 1}, Live: lv, NCirc: 2},
		[]circOp{{K: "tick", D: 5}, {K: "open"}, {K: "open"}, {K: "tick", D: 7}, {K: "close"}, {K: "close"}, {K: "open"}}))
	// a substitute clock that is set BACK between transitions: every stamp is still that call's own reading (C12)
	cs = append(cs, circCase(circParams{Mode: "normal", Opener: openerSpec{Kind: "consec", Thr: 1}, Closer: closerSpec{Kind: "hystrix", Sleep: sec, HalfOpen: 1, Required: 1}, Live: lv, NCirc: 2, NRun: 1},
		[]circOp{{K: "tick", D: 20 * sec}, {K: "open"}, {K: "tick", D: -5 * sec}, {K: "close"}, {K: "tick", D: -sec}, {K: "open"}, {K: "tick", D: -3 * sec}, {K: "close"},
			{K: "begin", ID: 0, Call: &callSpec{HasRun: true, Entry: "execute"}}, {K: "endrun", ID: 0, Res: "err"}}))
	// D11 (known finding): a panicking half-open probe spends the probe slot
	{
		var ops []circOp
		ops = append(ops, circOp{K: "open"}, circOp{K: "tick", D: sec}, circOp{K: "fire", D: 0})
		ops = append(ops, circOp{K: "begin", ID: 0, Call: &callSpec{HasRun: true, Entry: "execute"}}, circOp{K: "endrun", ID: 0, Res: "panic"})
		ops = append(ops, circOp{K: "begin", ID: 1, Call: &callSpec{HasRun: true, Entry: "execute"}}, circOp{K: "endrun", ID: 1, Res: "nil"})
		cs = append(cs, circCase(circParams{Mode: "normal", Opener: openerSpec{Kind: "never"}, Closer: closerSpec{Kind: "hystrix", Sleep: sec, HalfOpen: 1, Required: 1}, Live: lv}, ops))
	}
	// overlapping classes: bad request that overran, timeout with nil result, cancelled caller
	{
		l := lv
		l.Timeout = ms
		ops := []circOp{
			{K: "begin", ID: 0, Call: &callSpec{HasRun: true, HasFb: true, Entry: "execute"}},
			{K: "begin", ID: 1, Call: &callSpec{HasRun: true, HasFb: true, Entry: "execute"}},
			{K: "begin", ID: 2, Call: &callSpec{HasRun: true, HasFb: true, Entry: "execute", Done: true}},
			{K: "begin", ID: 3, Call: &callSpec{HasRun: true, HasFb: true, Entry: "go"}},
			{K: "tick", D: ms + 1},
			{K: "endrun", ID: 0, Res: "bad", RK: 1},
			{K: "endrun", ID: 1, Res: "nil"},
			{K: "endrun", ID: 2, Res: "err", RK: 2},
			{K: "endfb", ID: 2, Res: "ferr", RK: 3},
			{K: "endrun", ID: 3, Res: "wrapbad", RK: 0},
		}
		cs = append(cs, circCase(circParams{Mode: "normal", Opener: openerSpec{Kind: "consec", Thr: 2}, Closer: closerSpec{Kind: "custom"}, Live: l, NRun: 2, NFb: 1, NCirc: 1}, ops))
	}
	return cs
}
