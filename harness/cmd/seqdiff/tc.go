package main

// Family "tc": faststats.TimedCheck driven directly, sequentially, with a
// recording TimeAfterFunc whose callbacks the harness fires on demand
// (property C16, level 1).

import (
	"encoding/json"
	"fmt"
	"io"
	"math/rand"
	"time"

	"github.com/cep21/circuit/v4/faststats"

	"verifharness/internal/hc"
)

type tcParams struct {
	Sleep  int64 `json:"sleep"`
	Budget int64 `json:"budget"`
}

type tcOp struct {
	K string `json:"k"` // check sleepstart fire setsleep setbudget
	T int64  `json:"t"` // ns offset from T0 (check, sleepstart); index (fire); value (set*)
}

type tcFamily struct{}

func init() { families["tc"] = tcFamily{} }

func tcCase(p tcParams, ops []tcOp) *hc.Case {
	c := &hc.Case{Params: hc.Raw(p)}
	for _, o := range ops {
		c.Ops = append(c.Ops, hc.Raw(o))
	}
	return c
}

func (tcFamily) Corpus(string) []*hc.Case {
	return []*hc.Case{
		// fresh check: zero nextOpenTime admits; budget 1 re-arms at once
		tcCase(tcParams{100, 1}, []tcOp{{"check", 5}, {"check", 50}, {"fire", 0}, {"check", 104}, {"check", 105}, {"check", 106}, {"fire", 1}, {"check", 205}}),
		// stale callback after a newer re-arm must not reopen
		tcCase(tcParams{100, 1}, []tcOp{{"sleepstart", 0}, {"sleepstart", 50}, {"fire", 0}, {"check", 120}, {"fire", 1}, {"check", 149}, {"check", 150}}),
		// budget 3: exactly three per period
		tcCase(tcParams{10, 3}, []tcOp{{"sleepstart", 0}, {"fire", 0}, {"check", 10}, {"check", 10}, {"check", 11}, {"check", 12}, {"fire", 1}, {"check", 21}, {"check", 19}}),
		// D3 shape: budget 2, out-of-order stamps: exhausting check carries the older stamp
		tcCase(tcParams{10, 2}, []tcOp{{"sleepstart", 90}, {"fire", 0}, {"check", 109}, {"check", 100}, {"fire", 1}, {"check", 109}, {"check", 110}, {"check", 111}}),
		// budgets 0 and negative behave like 1
		tcCase(tcParams{10, 0}, []tcOp{{"sleepstart", 0}, {"fire", 0}, {"check", 10}, {"check", 11}, {"fire", 1}, {"check", 20}}),
		tcCase(tcParams{10, -3}, []tcOp{{"sleepstart", 0}, {"fire", 0}, {"check", 10}, {"check", 11}, {"fire", 1}, {"check", 20}, {"setbudget", 2}, {"fire", 2}, {"check", 30}, {"check", 30}, {"check", 30}}),
	}
}

func (tcFamily) Gen(r *rand.Rand, i int, tier string) *hc.Case {
	p := tcParams{
		Sleep:  hc.Pick(r, int64(0), 1, 10, 10, 100, 1000, int64(time.Second), -5),
		Budget: hc.Pick(r, int64(-1), 0, 1, 1, 1, 2, 2, 3, 5, -1<<63, -1<<63+1, 1<<63-1), // every budget: the ends of the int64 range too
	}
	n := 6 + r.Intn(30)
	var ops []tcOp
	now := int64(r.Intn(50))
	timers := 0
	sleep := p.Sleep
	deadline := int64(-1 << 60)
	for len(ops) < n {
		switch x := r.Intn(100); {
		case x < 55:
			// a check stamped around the deadline or around "now", sometimes out of order
			var t int64
			switch r.Intn(6) {
			case 0:
				t = deadline - 1
			case 1:
				t = deadline
			case 2:
				t = deadline + 1
			case 3:
				t = now - int64(r.Intn(20))
			default:
				t = now
			}
			ops = append(ops, tcOp{"check", t})
			timers++ // upper bound; fire indices beyond the real count are no-ops in both
		case x < 65:
			ops = append(ops, tcOp{"sleepstart", now})
			deadline = now + sleep
			timers++
		case x < 88:
			if r.Intn(4) == 0 && timers > 1 {
				ops = append(ops, tcOp{"fire", int64(r.Intn(timers))})
			} else {
				ops = append(ops, tcOp{"firelast", 0}) // resolved to the newest registration when executed
			}
		case x < 93:
			if r.Intn(3) == 0 {
				ops = append(ops, tcOp{"setafter", 0})
				break
			}
			sleep = hc.Pick(r, int64(0), 3, 10, 50, 500)
			ops = append(ops, tcOp{"setsleep", sleep})
		case x < 96:
			ops = append(ops, tcOp{"setbudget", hc.Pick(r, int64(-2), 0, 1, 2, 4)})
		default:
		}
		now += hc.Pick(r, int64(0), 1, 1, 5, 10, sleep/2+1, sleep+1)
	}
	return tcCase(p, ops)
}

func (tcFamily) Exec(c *hc.Case) {
	var p tcParams
	must(json.Unmarshal(c.Params, &p))
	var tcv faststats.TimedCheck
	type reg struct {
		d time.Duration
		f func()
		t *time.Timer
	}
	var regs []reg
	defer func() {
		for _, r := range regs {
			r.t.Stop()
		}
	}()
	tcv.TimeAfterFunc = func(d time.Duration, f func()) *time.Timer {
		t := hc.LiveTimer() // a timer the library has stopped does not fire
		regs = append(regs, reg{d, f, t})
		return t
	}
	tcv.SetSleepDuration(time.Duration(p.Sleep))
	tcv.SetEventCountToAllow(p.Budget)
	tags := map[string]bool{}
	// the property's own oracle
	budget := p.Budget
	haveDeadline := false
	var deadline int64
	succSince := int64(0)
	budgetStable := true    // budget unchanged since the last re-arm
	currentFired := false   // the callback of the latest re-arm has run
	maxb := func(b int64) int64 {
		if b < 1 {
			return 1
		}
		return b
	}
	for i, raw := range c.Ops {
		var o tcOp
		must(json.Unmarshal(raw, &o))
		out := "TONone"
		before := len(regs)
		switch o.K {
		case "check":
			got := tcv.Check(hc.T0.Add(time.Duration(o.T)))
			armed := "None"
			if len(regs) > before {
				armed = fmt.Sprintf("(Some %s)", hc.Zi(int64(regs[len(regs)-1].d)))
			}
			out = fmt.Sprintf("TOBool %s %s", hc.B(got), armed)
			if got && haveDeadline && o.T < deadline {
				c.Viol = append(c.Viol, hc.Violation{Clause: "Check(now) is false for every now earlier than t plus the sleep duration", Detail: fmt.Sprintf("Check(%d) true, deadline %d", o.T, deadline), AtOp: i})
			}
			if !got && currentFired && (!haveDeadline || o.T >= deadline) {
				c.Viol = append(c.Viol, hc.Violation{Clause: "exactly max(1,EventCountToAllow) checks succeed once the timer callback has fired and eligible checks arrive", Detail: fmt.Sprintf("Check(%d) false after the callback fired, deadline %d", o.T, deadline), AtOp: i})
			}
			if got {
				tags["check:true"] = true
				succSince++
				if budgetStable && succSince > maxb(budget) {
					c.Viol = append(c.Viol, hc.Violation{Clause: "between two re-armings at most max(1, EventCountToAllow) checks succeed", Detail: fmt.Sprintf("%d successes, budget %d", succSince, budget), AtOp: i})
				}
			} else {
				tags["check:false"] = true
			}
			if len(regs) > before {
				haveDeadline, deadline = true, o.T+int64(regs[len(regs)-1].d)
				succSince, budgetStable, currentFired = 0, true, false
				tags["rearm:by_check"] = true
			}
		case "sleepstart":
			tcv.SleepStart(hc.T0.Add(time.Duration(o.T)))
			d := int64(-1)
			if len(regs) > before {
				d = int64(regs[len(regs)-1].d)
			}
			out = "TOArmed " + hc.Zi(d)
			haveDeadline, deadline = true, o.T+d
			succSince, budgetStable, currentFired = 0, true, false
			tags["rearm:by_sleepstart"] = true
		case "fire", "firelast":
			if o.K == "firelast" {
				o = tcOp{"fire", int64(len(regs) - 1)}
				if o.T < 0 {
					o.T = 0
				}
				c.Ops[i] = hc.Raw(o)
			}
			if int(o.T) < len(regs) {
				hc.FireTimer(regs[o.T].t, regs[o.T].f)
				if int(o.T) == len(regs)-1 {
					currentFired = true
					tags["fire:current"] = true
				} else {
					tags["fire:stale"] = true
				}
			}
		case "setafter":
			tcv.SetTimeAfterFunc(tcv.TimeAfterFunc) // swapping the scheduler (here: for itself) changes nothing a caller can see
		case "setsleep":
			tcv.SetSleepDuration(time.Duration(o.T))
		case "setbudget":
			tcv.SetEventCountToAllow(o.T)
			budget = o.T
			budgetStable = false
		}
		c.Outs = append(c.Outs, out)
	}
	for t := range tags {
		c.Tags = append(c.Tags, t)
	}
	c.Tags = append(c.Tags, fmt.Sprintf("budget:%d", p.Budget))
}

func (tcFamily) Emit(w io.Writer, f *hc.File) {
	fmt.Fprintln(w, "From CV Require Import Base.Prelude Seq.TimedCheck Seq.CaseCheck.")
	fmt.Fprintf(w, "Definition t0 : Z := %s.\n", hc.ZofTime(hc.T0))
	fmt.Fprintln(w, "Definition cases : list tc_case := [")
	for i, c := range f.Cases {
		var p tcParams
		must(json.Unmarshal(c.Params, &p))
		var ops []string
		curSleep := p.Sleep
		for _, raw := range c.Ops {
			var o tcOp
			must(json.Unmarshal(raw, &o))
			switch o.K {
			case "check":
				ops = append(ops, fmt.Sprintf("TCheck (t0 + %s)", hc.Zi(o.T)))
			case "sleepstart":
				ops = append(ops, fmt.Sprintf("TSleepStart (t0 + %s)", hc.Zi(o.T)))
			case "fire":
				ops = append(ops, fmt.Sprintf("TFire %d%%nat", o.T))
			case "setafter":
				// the model's no-op: the sleep duration set to what it is (a large nat literal as a dead timer
				// index would cost megabytes per occurrence)
				ops = append(ops, "TSetSleep "+hc.Zi(curSleep))
			case "setsleep":
				curSleep = o.T
				ops = append(ops, "TSetSleep "+hc.Zi(o.T))
			case "setbudget":
				ops = append(ops, "TSetBudget "+hc.Zi(o.T))
			}
		}
		sep := ";"
		if i == len(f.Cases)-1 {
			sep = ""
		}
		fmt.Fprintf(w, " (%d%%nat, %s, %s, %s,\n   %s)%s\n", c.ID, hc.Zi(p.Sleep), hc.Zi(p.Budget), hc.List(ops), hc.List(c.Outs), sep)
	}
	fmt.Fprintln(w, "].")
	fmt.Fprintln(w, "Definition result := Eval vm_compute in tc_mismatches cases.")
	fmt.Fprintln(w, "Print result.")
}
