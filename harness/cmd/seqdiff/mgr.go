package main

// Family "mgr": circuit.Manager with scripted configuration constructors and a
// real rolling.StatFactory (property C17, level 1).

import (
	"encoding/json"
	"expvar"
	"fmt"
	"io"
	"math/rand"
	"sort"
	"strings"
	"time"

	"github.com/cep21/circuit/v4"
	"github.com/cep21/circuit/v4/metrics/rolling"

	"verifharness/internal/hc"
)

type mCfg struct {
	Timeout      int64 `json:"timeout,omitempty"`
	Max          int64 `json:"max,omitempty"`
	FbMax        int64 `json:"fbmax,omitempty"`
	ForceOpen    bool  `json:"force_open,omitempty"`
	ForcedClosed bool  `json:"forced_closed,omitempty"`
	Disabled     bool  `json:"disabled,omitempty"`
}

type mCtor struct {
	Stats bool `json:"stats,omitempty"`
	Cfg   mCfg `json:"cfg"`
}

type mgrParams struct {
	Defaults []mCtor `json:"defaults"`
}

type mgrOp struct {
	K        string `json:"k"` // create get all stats
	Name     int    `json:"name"`
	Explicit []mCfg `json:"explicit,omitempty"`
}

type mgrFamily struct{}

func init() { families["mgr"] = mgrFamily{} }

func (c mCfg) config() circuit.Config {
	var cfg circuit.Config
	cfg.Execution.Timeout = time.Duration(c.Timeout)
	cfg.Execution.MaxConcurrentRequests = c.Max
	cfg.Fallback.MaxConcurrentRequests = c.FbMax
	cfg.General.ForceOpen, cfg.General.ForcedClosed, cfg.General.Disabled = c.ForceOpen, c.ForcedClosed, c.Disabled
	return cfg
}

func (c mCfg) coq() string {
	return fmt.Sprintf("{| mc_timeout := %s; mc_max := %s; mc_fbmax := %s; mc_force_open := %s; mc_forced_closed := %s; mc_disabled := %s |}",
		hc.Zi(c.Timeout), hc.Zi(c.Max), hc.Zi(c.FbMax), hc.B(c.ForceOpen), hc.B(c.ForcedClosed), hc.B(c.Disabled))
}

func mgrCase(p mgrParams, ops []mgrOp) *hc.Case {
	c := &hc.Case{Params: hc.Raw(p)}
	for _, o := range ops {
		c.Ops = append(c.Ops, hc.Raw(o))
	}
	return c
}

func (mgrFamily) Corpus(string) []*hc.Case {
	return []*hc.Case{
		// D8: a failed create must not re-register stats for the live circuit's name
		mgrCase(mgrParams{Defaults: []mCtor{{Stats: true}}}, []mgrOp{{K: "create", Name: 1}, {K: "stats", Name: 1}, {K: "create", Name: 1}, {K: "stats", Name: 1}, {K: "get", Name: 1}, {K: "all"}}),
		// precedence: explicit in argument order, then defaults from last to first, then library defaults
		mgrCase(mgrParams{Defaults: []mCtor{{Cfg: mCfg{Timeout: 5, Max: 7}}, {Cfg: mCfg{Timeout: 9, FbMax: 3, ForceOpen: true}}}},
			[]mgrOp{{K: "create", Name: 1, Explicit: []mCfg{{Max: 2}, {Max: 4, Timeout: 11}}}, {K: "create", Name: 2}, {K: "create", Name: 3, Explicit: []mCfg{{Timeout: -1, Disabled: true}}}, {K: "all"}}),
	}
}

func drawMCfg(r *rand.Rand) mCfg {
	c := mCfg{}
	if r.Intn(2) == 0 {
		c.Timeout = hc.Pick(r, int64(-1), 1, 5, 1000, int64(time.Second))
	}
	if r.Intn(2) == 0 {
		c.Max = hc.Pick(r, int64(-1), 1, 2, 50)
	}
	if r.Intn(3) == 0 {
		c.FbMax = hc.Pick(r, int64(-1), 1, 3)
	}
	c.ForceOpen, c.ForcedClosed, c.Disabled = r.Intn(6) == 0, r.Intn(6) == 0, r.Intn(8) == 0
	return c
}

func (mgrFamily) Gen(r *rand.Rand, i int, tier string) *hc.Case {
	var p mgrParams
	nd := r.Intn(4)
	statsAt := -1
	if r.Intn(3) != 0 {
		statsAt = r.Intn(nd + 1)
	}
	for k := 0; k <= nd; k++ {
		if k == statsAt {
			p.Defaults = append(p.Defaults, mCtor{Stats: true})
		} else if k < nd {
			p.Defaults = append(p.Defaults, mCtor{Cfg: drawMCfg(r)})
		}
	}
	var ops []mgrOp
	n := 5 + r.Intn(14)
	for len(ops) < n {
		name := r.Intn(4)
		switch x := r.Intn(10); {
		case x < 5:
			o := mgrOp{K: "create", Name: name}
			for k := r.Intn(3); k > 0; k-- {
				o.Explicit = append(o.Explicit, drawMCfg(r))
			}
			ops = append(ops, o)
		case x < 7:
			ops = append(ops, mgrOp{K: "get", Name: name})
		case x < 8:
			ops = append(ops, mgrOp{K: "all"})
		default:
			ops = append(ops, mgrOp{K: "stats", Name: name})
		}
	}
	ops = append(ops, mgrOp{K: "all"})
	return mgrCase(p, ops)
}

func (mgrFamily) Exec(c *hc.Case) {
	var p mgrParams
	must(json.Unmarshal(c.Params, &p))
	factory := &rolling.StatFactory{}
	hasFactory := false
	m := &circuit.Manager{}
	for _, d := range p.Defaults {
		d := d
		if d.Stats {
			hasFactory = true
			m.DefaultCircuitProperties = append(m.DefaultCircuitProperties, factory.CreateConfig)
		} else {
			k := len(m.DefaultCircuitProperties)
			m.DefaultCircuitProperties = append(m.DefaultCircuitProperties, func(name string) circuit.Config {
				cfg := d.Cfg.config()
				// a map-valued setting whose value depends on the circuit: each default layer contributes its own key
				cfg.General.CustomConfig = map[interface{}]interface{}{fmt.Sprintf("default-%d", k): name}
				return cfg
			})
		}
	}
	// the caller reuses ONE explicit CustomConfig map for every create (as code that builds a Config once does)
	sharedCC := map[interface{}]interface{}{"explicit": "E"}
	ids := map[*circuit.Circuit]int{}
	byName := map[int]*circuit.Circuit{}
	tags := map[string]bool{}
	statsLive := func(name int) string {
		if !hasFactory {
			return "None"
		}
		st := factory.RunStats(fmt.Sprint(name))
		if st == nil {
			return "None"
		}
		cir := m.GetCircuit(fmt.Sprint(name))
		live := cir != nil && rolling.FindCommandMetrics(cir) == st
		return fmt.Sprintf("(Some %s)", hc.B(live))
	}
	for i, raw := range c.Ops {
		var o mgrOp
		must(json.Unmarshal(raw, &o))
		name := fmt.Sprint(o.Name)
		out := ""
		switch o.K {
		case "create":
			var cfgs []circuit.Config
			for k, e := range o.Explicit {
				cfg := e.config()
				if k == 0 {
					cfg.General.CustomConfig = sharedCC
				}
				cfgs = append(cfgs, cfg)
			}
			before := statsLive(o.Name)
			cir, err := m.CreateCircuit(name, cfgs...)
			if err != nil {
				out = "MExists"
				tags["create:duplicate"] = true
				if byName[o.Name] == nil {
					c.Viol = append(c.Viol, hc.Violation{Clause: "for CreateCircuit calls with one name exactly one succeeds", Detail: "create failed though the name was free", AtOp: i})
				}
				if m.GetCircuit(name) != byName[o.Name] {
					c.Viol = append(c.Viol, hc.Violation{Clause: "a CreateCircuit that fails because the name exists changes nothing observable: the registered circuit still belongs to the name", Detail: "registered circuit changed", AtOp: i})
				}
				if after := statsLive(o.Name); after != before || after == "(Some false)" {
					c.Viol = append(c.Viol, hc.Violation{Clause: "a CreateCircuit that fails because the name exists changes nothing observable: the stats a StatFactory hands out for that name still belong to the live circuit", Detail: fmt.Sprintf("factory stats live before %s, after %s", before, after), AtOp: i})
				}
			} else {
				if byName[o.Name] != nil {
					c.Viol = append(c.Viol, hc.Violation{Clause: "for CreateCircuit calls with one name exactly one succeeds", Detail: "second create succeeded", AtOp: i})
				}
				ids[cir] = len(ids)
				byName[o.Name] = cir
				eff := cir.Config()
				ec := mCfg{Timeout: int64(eff.Execution.Timeout), Max: eff.Execution.MaxConcurrentRequests, FbMax: eff.Fallback.MaxConcurrentRequests,
					ForceOpen: eff.General.ForceOpen, ForcedClosed: eff.General.ForcedClosed, Disabled: eff.General.Disabled}
				out = fmt.Sprintf("MCreated %d%%nat %s %s", ids[cir], ec.coq(), statsLive(o.Name))
				tags["create:ok"] = true
				// precedence oracle: first set value along explicit (argument order), defaults last to first, library
				layers := append([]mCfg{}, o.Explicit...)
				for k := len(p.Defaults) - 1; k >= 0; k-- {
					if !p.Defaults[k].Stats {
						layers = append(layers, p.Defaults[k].Cfg)
					}
				}
				layers = append(layers, mCfg{Timeout: int64(time.Second), Max: 10, FbMax: 10})
				var want mCfg
				for _, l := range layers {
					if want.Timeout == 0 {
						want.Timeout = l.Timeout
					}
					if want.Max == 0 {
						want.Max = l.Max
					}
					if want.FbMax == 0 {
						want.FbMax = l.FbMax
					}
					want.ForceOpen = want.ForceOpen || l.ForceOpen
					want.ForcedClosed = want.ForcedClosed || l.ForcedClosed
					want.Disabled = want.Disabled || l.Disabled
				}
				if want != ec {
					c.Viol = append(c.Viol, hc.Violation{Clause: "a created circuit's settings are taken field by field from the explicit configs in argument order, then from DefaultCircuitProperties from last to first, then from the library defaults", Detail: fmt.Sprintf("got %+v want %+v", ec, want), AtOp: i})
				}
				// the map-valued setting: entries united, higher-precedence layers winning; per-circuit values stay per circuit
				wantCC := map[interface{}]interface{}{}
				if len(o.Explicit) > 0 {
					wantCC["explicit"] = "E"
				}
				for k := range p.Defaults {
					if !p.Defaults[k].Stats {
						wantCC[fmt.Sprintf("default-%d", k)] = name
					}
				}
				gotCC := eff.General.CustomConfig
				same := len(gotCC) == len(wantCC)
				for kk, vv := range wantCC {
					if gotCC[kk] != vv {
						same = false
					}
				}
				if !same {
					c.Viol = append(c.Viol, hc.Violation{Clause: "a created circuit's settings are taken field by field from the explicit configs in argument order, then from DefaultCircuitProperties from last to first, then from the library defaults", Detail: fmt.Sprintf("CustomConfig of circuit %s: got %v want %v (the caller's own explicit map is now %v)", name, gotCC, wantCC, sharedCC), AtOp: i})
				}
				if len(wantCC) > 1 {
					tags["customconfig:layers"] = true
				}
				if len(layers) > 2 {
					tags["layers:3+"] = true
				}
			}
		case "get":
			cir := m.GetCircuit(name)
			if cir == nil {
				out = "MFound None"
			} else {
				out = fmt.Sprintf("MFound (Some %d%%nat)", ids[cir])
			}
			if cir != byName[o.Name] {
				c.Viol = append(c.Viol, hc.Violation{Clause: "GetCircuit returns that same circuit", Detail: "different circuit", AtOp: i})
			}
		case "all":
			var l []int
			for _, cir := range m.AllCircuits() {
				l = append(l, ids[cir])
			}
			sort.Ints(l)
			var sl []string
			for _, x := range l {
				sl = append(sl, fmt.Sprintf("%d%%nat", x))
			}
			out = "MList [" + strings.Join(sl, "; ") + "]"
			if len(l) != len(byName) {
				c.Viol = append(c.Viol, hc.Violation{Clause: "AllCircuits holds exactly the successfully created circuits", Detail: fmt.Sprintf("%d listed, %d created", len(l), len(byName)), AtOp: i})
			}
		case "stats":
			out = "MStatsLive " + statsLive(o.Name)
		}
		c.Outs = append(c.Outs, out)
	}
	// a create of a NEW name that panics half-way (a configuration constructor panics; the caller recovers) is a create
	// that did not succeed: AllCircuits still holds exactly the created circuits, and the name can be created afterwards
	{
		boom := true
		m.DefaultCircuitProperties = append(m.DefaultCircuitProperties, func(name string) circuit.Config {
			if name == "late-panic" && boom {
				boom = false
				panic("constructor failed")
			}
			return circuit.Config{}
		})
		before := len(m.AllCircuits())
		func() {
			defer func() { _ = recover() }()
			_, _ = m.CreateCircuit("late-panic")
		}()
		check := func(want int, when string) {
			all := m.AllCircuits()
			seen := map[*circuit.Circuit]bool{}
			bad := len(all) != want
			for _, x := range all {
				if x == nil || seen[x] {
					bad = true
				}
				seen[x] = true
			}
			if bad {
				c.Viol = append(c.Viol, hc.Violation{Clause: "AllCircuits holds exactly the successfully created circuits", Detail: fmt.Sprintf("%s: %d entries (nil or repeated entries count as wrong), want %d distinct circuits", when, len(all), want), AtOp: len(c.Ops)})
			}
		}
		check(before, "after a create whose constructor panicked")
		// what AllCircuits returns is the caller's: overwriting it (the in-place filter idiom) changes nothing
		scr := m.AllCircuits()
		for i := range scr {
			scr[i] = nil
		}
		_ = append(scr[:0], nil, nil)
		check(before, "after the caller overwrote the slice an earlier AllCircuits call had returned")
		if cir, err := m.CreateCircuit("late-panic"); err != nil || cir == nil || m.GetCircuit("late-panic") != cir {
			c.Viol = append(c.Viol, hc.Violation{Clause: "for CreateCircuit calls with one name exactly one succeeds", Detail: fmt.Sprintf("the name of a create that panicked cannot be created afterwards: %v", err), AtOp: len(c.Ops)})
		}
		check(before+1, "after the retry succeeded")
		// a RETAINED Manager.Var (what expvar.Publish keeps): each evaluation returns a value of its own -- one already
		// handed out is not rewritten by the next evaluation
		if fn, ok := m.Var().(expvar.Func); ok {
			if r1, ok := fn().(map[string]interface{}); ok {
				n1 := len(r1)
				if _, err := m.CreateCircuit("var-late"); err == nil {
					_ = fn()
					if len(r1) != n1 {
						c.Viol = append(c.Viol, hc.Violation{Clause: "C11: read-side diagnostics (Var/expvar) observe a consistent value", Detail: fmt.Sprintf("the value an evaluation of a retained Manager.Var returned (%d circuits) was rewritten by the next evaluation (%d circuits now)", n1, len(r1)), AtOp: len(c.Ops)})
						c.Viol = append(c.Viol, hc.Violation{Clause: "AllCircuits holds exactly the successfully created circuits", Detail: fmt.Sprintf("Manager.Var: a value already handed out (%d circuits) changed when the Var was evaluated again (%d)", n1, len(r1)), AtOp: len(c.Ops)})
					}
				}
			}
		}
		// a collector whose Var() panics once while Manager.Var renders (the caller recovers): the manager stays usable
		{
			pv := &panickyVar{}
			var pc circuit.Config
			pc.Metrics.Run = []circuit.RunMetrics{pv}
			if _, err := m.CreateCircuit("var-panics", pc); err == nil {
				func() {
					defer func() { _ = recover() }()
					_ = m.Var().String()
				}()
				done := make(chan error, 1)
				go func() {
					_, err := m.CreateCircuit("after-var-panic")
					done <- err
				}()
				select {
				case err := <-done:
					if err != nil || m.GetCircuit("after-var-panic") == nil {
						c.Viol = append(c.Viol, hc.Violation{Clause: "for CreateCircuit calls with one name exactly one succeeds", Detail: fmt.Sprintf("after a recovered panic inside Manager.Var's rendering: CreateCircuit of a new name failed: %v", err), AtOp: len(c.Ops)})
					}
				case <-time.After(3 * time.Second):
					c.Viol = append(c.Viol, hc.Violation{Clause: "for CreateCircuit calls with one name exactly one succeeds", Detail: "after a collector's Var() panicked once during Manager.Var's rendering (recovered by the caller) CreateCircuit of a new name was still blocked 3 s later", AtOp: len(c.Ops)})
				}
			}
		}
	}
	for t := range tags {
		c.Tags = append(c.Tags, t)
	}
	if hasFactory {
		c.Tags = append(c.Tags, "statfactory")
	}
}

func (mgrFamily) Emit(w io.Writer, f *hc.File) {
	fmt.Fprintln(w, "From CV Require Import Base.Prelude Seq.Manager Seq.CaseCheck Seq.ManagerCase.")
	fmt.Fprintln(w, "Definition cases : list mgr_case := [")
	for i, c := range f.Cases {
		var p mgrParams
		must(json.Unmarshal(c.Params, &p))
		var ds []string
		for _, d := range p.Defaults {
			if d.Stats {
				ds = append(ds, "CtorStats")
			} else {
				ds = append(ds, "CtorStatic "+d.Cfg.coq())
			}
		}
		var ops []string
		for _, raw := range c.Ops {
			var o mgrOp
			must(json.Unmarshal(raw, &o))
			switch o.K {
			case "create":
				var ex []string
				for _, e := range o.Explicit {
					ex = append(ex, e.coq())
				}
				ops = append(ops, fmt.Sprintf("MCreate %d%%nat %s", o.Name, hc.List(ex)))
			case "get":
				ops = append(ops, fmt.Sprintf("MGet %d%%nat", o.Name))
			case "all":
				ops = append(ops, "MAll")
			case "stats":
				ops = append(ops, fmt.Sprintf("MStats %d%%nat", o.Name))
			}
		}
		sep := ";"
		if i == len(f.Cases)-1 {
			sep = ""
		}
		fmt.Fprintf(w, " (%d%%nat, %s, %s,\n   %s)%s\n", c.ID, hc.List(ds), hc.List(ops), hc.List(c.Outs), sep)
	}
	fmt.Fprintln(w, "].")
	fmt.Fprintln(w, "Definition result := Eval vm_compute in mgr_mismatches cases.")
	fmt.Fprintln(w, "Print result.")
}

// panickyVar is a run collector with a Var() that panics the first time it is rendered.
type panickyVar struct {
	inertRun
	done bool
}

func (p *panickyVar) Var() expvar.Var {
	if !p.done {
		p.done = true
		panic("collector's Var failed")
	}
	return expvar.Func(func() interface{} { return 1 })
}
