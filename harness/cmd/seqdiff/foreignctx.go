package main

import (
	"context"
	"errors"
	"fmt"
	"sync"
	"time"

	"github.com/cep21/circuit/v4"
	"verifharness/internal/hc"
)

// foreignCtx is a caller context that is not one of the standard library's types: it is done the moment end() is
// called, while contexts DERIVED from it hear of that only when the hand-over the context package registered through
// AfterFunc is run (propagate()) -- what the package does for any foreign parent, on a goroutine of its own, made
// deterministic here.  "The caller's own context is done" (C05) is a statement about this context, not about
// anything derived from it.
type foreignCtx struct {
	mu    sync.Mutex
	done  chan struct{}
	err   error
	after []func()
}

func newForeignCtx() *foreignCtx { return &foreignCtx{done: make(chan struct{})} }

func (f *foreignCtx) Deadline() (time.Time, bool)   { return time.Time{}, false }
func (f *foreignCtx) Done() <-chan struct{}         { return f.done }
func (f *foreignCtx) Value(interface{}) interface{} { return nil }
func (f *foreignCtx) Err() error {
	f.mu.Lock()
	defer f.mu.Unlock()
	return f.err
}
func (f *foreignCtx) AfterFunc(fn func()) func() bool {
	f.mu.Lock()
	defer f.mu.Unlock()
	f.after = append(f.after, fn)
	return func() bool { return false }
}
func (f *foreignCtx) end() {
	f.mu.Lock()
	defer f.mu.Unlock()
	if f.err == nil {
		f.err = context.Canceled
		close(f.done)
	}
}
func (f *foreignCtx) propagate() {
	f.mu.Lock()
	fs := f.after
	f.after = nil
	f.mu.Unlock()
	for _, fn := range fs {
		fn()
	}
}

func foreignCtxProbe(c *hc.Case, tags map[string]bool) {
	errRun := errors.New("run")
	for _, entry := range []string{"run", "execute"} {
		for _, tmo := range []time.Duration{time.Hour, -1} {
			var kinds []string
			var cfg circuit.Config
			cfg.Execution.Timeout = tmo
			cfg.Metrics.Run = []circuit.RunMetrics{kindRec{&kinds}}
			x := circuit.NewCircuitFromConfig("foreign-ctx", cfg)
			f := newForeignCtx()
			fn := func(context.Context) error { f.end(); return errRun }
			done := make(chan struct{})
			go func() {
				defer close(done)
				defer func() { _ = recover() }()
				if entry == "run" {
					_ = x.Run(f, fn)
				} else {
					_ = x.Execute(f, fn, func(context.Context, error) error { return nil })
				}
			}()
			select {
			case <-done:
			case <-time.After(10 * time.Second):
				f.propagate()
				continue // a call that blocks here is C18's / C07's business
			}
			f.propagate()
			tags["foreign-ctx:"+entry] = true
			if len(kinds) != 1 || kinds[0] != "KInterrupt" {
				c.Viol = append(c.Viol, hc.Violation{Clause: "C05: the kind follows the precedence order bad request, timeout, caller interrupt, failure, success",
					Detail: fmt.Sprintf("%s with Timeout %v: the function returned an error while the caller's own context (not a standard-library type; contexts derived from it learn of its end later) was done: run events %v, want [KInterrupt]", entry, tmo, kinds), AtOp: len(c.Ops)})
			}
		}
	}
}

// zeroDeadlineProbe: "ran longer than Execution.Timeout" is about durations, whatever the clock's readings are --
// also when the call's deadline (start + Timeout) is exactly the zero time.Time, a value code likes to use for
// "none".  The call starts at zero time - Timeout, runs ten times its timeout and fails: one run event, a timeout.
func zeroDeadlineProbe(c *hc.Case, tags map[string]bool) {
	for _, ret := range []string{"error", "nil"} {
		tmo := time.Second
		now := time.Time{}.Add(-tmo)
		var kinds []string
		var cfg circuit.Config
		cfg.General.TimeKeeper.Now = func() time.Time { return now }
		cfg.Execution.Timeout = tmo
		cfg.Metrics.Run = []circuit.RunMetrics{kindRec{&kinds}}
		x := circuit.NewCircuitFromConfig("zero-deadline", cfg)
		caller := context.WithValue(context.WithValue(context.Background(), "circuit", "the caller's"), "zero-deadline", "the caller's too")
		var got context.Context
		_ = x.Run(caller, func(rctx context.Context) error {
			got = rctx
			now = now.Add(10 * tmo)
			if ret == "error" {
				return errors.New("late")
			}
			return nil
		})
		tags["zero-deadline"] = true
		if _, has := got.Deadline(); got == caller || !has {
			c.Viol = append(c.Viol, hc.Violation{Clause: "C07: with Timeout > 0 the run function receives a derived context whose deadline is call start plus Timeout", Detail: "Timeout 1s, call start at zero time - 1s (deadline = the zero time): the run function was handed the caller's own context / a context without a deadline", AtOp: len(c.Ops)})
		}
		if got.Value("circuit") != "the caller's" || got.Value("zero-deadline") != "the caller's too" {
			c.Viol = append(c.Viol, hc.Violation{Clause: "C07: the derived context carries the caller's values", Detail: fmt.Sprintf("values the caller stored under the plain string keys \"circuit\" and the circuit's name read %v and %v in the run function's context", got.Value("circuit"), got.Value("zero-deadline")), AtOp: len(c.Ops)})
		}
		if len(kinds) != 1 || kinds[0] != "KTimeout" {
			c.Viol = append(c.Viol, hc.Violation{Clause: "C05: the kind follows the precedence order bad request, timeout, caller interrupt, failure, success",
				Detail: fmt.Sprintf("the substitute clock read zero time - 1s when the call started (so its deadline is the zero time), Timeout 1s, the function returned %s 10s later: run events %v, want [KTimeout]", ret, kinds), AtOp: len(c.Ops)})
		}
	}
}
