// seqdiff: level-1 correspondence driver. For a family of the model it
// generates operation histories from one PRNG, runs them on the library in
// /repo's working tree (the module is replaced onto /repo), evaluates the
// property's own monitors on what the implementation did, and emits the
// histories together with the observed outputs as a Coq file that the model
// evaluates with vm_compute.
package main

import (
	"flag"
	"fmt"
	"io"
	"math/rand"
	"os"
	"time"

	"verifharness/internal/hc"
)

type Family interface {
	Corpus(tier string) []*hc.Case
	Gen(r *rand.Rand, i int, tier string) *hc.Case
	Exec(c *hc.Case)
	Emit(w io.Writer, f *hc.File)
}

var families = map[string]Family{}

func main() {
	if len(os.Args) < 3 {
		fmt.Fprintln(os.Stderr, "usage: seqdiff <family> gen|exec|emit [flags]")
		os.Exit(2)
	}
	fam, ok := families[os.Args[1]]
	if !ok {
		fmt.Fprintln(os.Stderr, "unknown family", os.Args[1])
		os.Exit(2)
	}
	fs := flag.NewFlagSet(os.Args[2], flag.ExitOnError)
	seed := fs.Int64("seed", 1, "VERIF_SEED")
	tier := fs.String("tier", "quick", "quick|thorough")
	n := fs.Int("n", 300, "number of generated cases")
	shard := fs.Int("shard", 0, "shard index (mixed into the PRNG seed)")
	in := fs.String("in", "", "input case file")
	out := fs.String("out", "", "output file")
	long := fs.Bool("long", false, "also run the probes that need tens of seconds of real time")
	epoch := fs.String("epoch", "", "past: substitute clock in the year 2000 (circ family)")
	_ = fs.Parse(os.Args[3:])
	hc.SetEpoch(*epoch)
	hc.Long = *long
	switch os.Args[2] {
	case "gen":
		f := &hc.File{Family: os.Args[1], Seed: *seed, Tier: *tier, Dist: map[string]int{}, Extra: map[string]string{"epoch": *epoch}}
		if *shard == 0 {
			for _, c := range fam.Corpus(*tier) {
				c.Kind = "corpus"
				f.Cases = append(f.Cases, c)
			}
		}
		r := hc.Rng(*seed, *shard)
		for i := 0; i < *n; i++ {
			c := fam.Gen(r, i, *tier)
			if c.Kind == "" {
				c.Kind = "generated"
			}
			f.Cases = append(f.Cases, c)
		}
		for i, c := range f.Cases {
			c.ID = i
			execGuard(fam, c)
			for _, t := range c.Tags {
				hc.Count(f.Dist, t)
			}
		}
		must(f.Save(*out))
	case "exec":
		f, err := hc.Load(*in)
		must(err)
		hc.SetEpoch(f.Extra["epoch"])
		f.Dist = map[string]int{}
		for _, c := range f.Cases {
			c.Outs, c.Viol, c.Tags, c.Known = nil, nil, nil, nil
			execGuard(fam, c)
			for _, t := range c.Tags {
				hc.Count(f.Dist, t)
			}
		}
		must(f.Save(*out))
	case "emit":
		f, err := hc.Load(*in)
		must(err)
		hc.SetEpoch(f.Extra["epoch"])
		w, err := os.Create(*out)
		must(err)
		fam.Emit(w, f)
		must(w.Close())
	default:
		fmt.Fprintln(os.Stderr, "unknown mode", os.Args[2])
		os.Exit(2)
	}
}

// execGuard runs one case under a watchdog: a library change that makes an operation block for ever must show as a
// failed case (and the check go on), not as a check that hangs until its own timeout.
func execGuard(fam Family, c *hc.Case) {
	done := make(chan struct{})
	go func() {
		defer close(done)
		fam.Exec(c)
	}()
	select {
	case <-done:
	case <-time.After(90 * time.Second):
		c.Outs = nil
		c.Viol = append(c.Viol, hc.Violation{Clause: "an operation of the library neither returned nor reached the harness's next hand-over point within 90 s (deadlock, lost wake-up or a wait on the wall clock)", Detail: "the case was abandoned; its goroutines are left behind", AtOp: 0})
		c.Tags = append(c.Tags, "harness:hung")
	}
}

func must(err error) {
	if err != nil {
		fmt.Fprintln(os.Stderr, "seqdiff:", err)
		os.Exit(3)
	}
}
