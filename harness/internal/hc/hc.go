// Package hc holds what every correspondence family shares: the case file
// format, the PRNG discipline, Coq term printing and distribution counters.
package hc

import (
	"encoding/json"
	"fmt"
	"hash/fnv"
	"math/big"
	"math/rand"
	"os"
	"sort"
	"strings"
	"time"
)

// T0 is the origin of the substitute clock: far enough in the future that no
// deadline derived from it fires in real time and that any wall-clock reading
// leaking into an observation is > 170 years away from every predicted value.
var T0 = time.Date(2200, 1, 1, 0, 0, 0, 0, time.UTC)

// PastEpoch is true when the substitute clock was moved to the year 2000 (`-epoch past`): every deadline
// derived from it has ALREADY passed on the wall clock, so a circuit that lets the wall clock's view of a
// deadline into what it reports (property C12) shows it.  Only calls whose outcome does not depend on the
// derived context's wall-clock state are generated in this mode (no Go entry point, no caller deadlines).
var PastEpoch bool

func SetEpoch(e string) {
	if e == "past" {
		PastEpoch = true
		T0 = time.Date(2000, 1, 1, 0, 0, 0, 0, time.UTC)
	}
	if e == "zero" {
		// the substitute clock starts at the zero time.Time (what an untouched mock clock reads): a value, like any other
		PastEpoch = true
		T0 = time.Time{}
	}
}

// TS is a timestamp: T0 + S seconds + N nanoseconds (two fields so that
// offsets beyond the int64 nanosecond range, where time.Time.Sub saturates,
// can be expressed).
type TS struct {
	S int64 `json:"s"`
	N int64 `json:"n"`
}

// TimeOf builds the time.Time for ts, correct for any magnitude time.Time can hold.
func TimeOf(ts TS) time.Time {
	return time.Unix(T0.Unix()+ts.S, ts.N).UTC()
}

// ZOf is the Coq Z literal (nanoseconds since the Unix epoch) of ts.
func ZOf(ts TS) string {
	v := new(big.Int).SetInt64(T0.Unix() + ts.S)
	v.Mul(v, big.NewInt(1000000000))
	v.Add(v, big.NewInt(ts.N))
	return Z(v)
}

// ZofTime converts a time.Time observed from the implementation.
func ZofTime(t time.Time) string {
	v := new(big.Int).SetInt64(t.Unix())
	v.Mul(v, big.NewInt(1000000000))
	v.Add(v, big.NewInt(int64(t.Nanosecond())))
	return Z(v)
}

func Z(v *big.Int) string {
	if v.Sign() < 0 {
		return "(" + v.String() + ")"
	}
	return v.String()
}

func Zi(v int64) string {
	if v < 0 {
		return fmt.Sprintf("(%d)", v)
	}
	return fmt.Sprintf("%d", v)
}

func B(b bool) string {
	if b {
		return "true"
	}
	return "false"
}

func ZList(l []int64) string {
	p := make([]string, len(l))
	for i, v := range l {
		p[i] = Zi(v)
	}
	return "[" + strings.Join(p, "; ") + "]"
}

func List(items []string) string { return "[" + strings.Join(items, "; ") + "]" }

// Violation is a property monitor's finding on the implementation itself,
// independent of the model.
type Violation struct {
	Clause string `json:"clause"`
	Detail string `json:"detail"`
	AtOp   int    `json:"at_op"`
}

// Case is one correspondence case: parameters, operations, and (after Exec)
// the implementation's observed outputs as Coq terms.
type Case struct {
	ID     int               `json:"id"`
	Kind   string            `json:"kind"` // corpus | generated | edge
	Params json.RawMessage   `json:"params"`
	Ops    []json.RawMessage `json:"ops"`
	Outs   []string          `json:"outs,omitempty"`
	Viol   []Violation       `json:"violations,omitempty"`
	Tags   []string          `json:"tags,omitempty"`
	Known  []string          `json:"known,omitempty"` // known-finding ids matched by this case's violations
}

type File struct {
	Family string            `json:"family"`
	Seed   int64             `json:"seed"`
	Tier   string            `json:"tier"`
	Cases  []*Case           `json:"cases"`
	Dist   map[string]int    `json:"distribution"`
	Extra  map[string]string `json:"extra,omitempty"`
}

func Load(path string) (*File, error) {
	b, err := os.ReadFile(path)
	if err != nil {
		return nil, err
	}
	var f File
	if err := json.Unmarshal(b, &f); err != nil {
		return nil, err
	}
	return &f, nil
}

func (f *File) Save(path string) error {
	b, err := json.MarshalIndent(f, "", " ")
	if err != nil {
		return err
	}
	return os.WriteFile(path, b, 0o644)
}

func Raw(v interface{}) json.RawMessage {
	b, err := json.Marshal(v)
	if err != nil {
		panic(err)
	}
	return b
}

func Rng(seed int64, shard int) *rand.Rand {
	h := fnv.New64a()
	fmt.Fprintf(h, "%d/%d", seed, shard)
	return rand.New(rand.NewSource(int64(h.Sum64() >> 1)))
}

// Hash of a case's observable content, for counting distinct cases.
func (c *Case) Hash() uint64 {
	h := fnv.New64a()
	h.Write(c.Params)
	for _, o := range c.Ops {
		h.Write(o)
	}
	for _, o := range c.Outs {
		h.Write([]byte(o))
	}
	return h.Sum64()
}

func Count(d map[string]int, k string) { d[k]++ }

func SortedKeys(d map[string]int) []string {
	ks := make([]string, 0, len(d))
	for k := range d {
		ks = append(ks, k)
	}
	sort.Strings(ks)
	return ks
}

func Pick[T any](r *rand.Rand, xs ...T) T { return xs[r.Intn(len(xs))] }

// LiveTimer is what the substitute AfterFunc hands to the library: a real *time.Timer (due in a thousand hours, with an
// empty function) standing for the registered callback, so that the library's Stop() on it is seen.  FireTimer runs
// the callback the way a real timer would: only if nobody has stopped (or already fired) it.
func LiveTimer() *time.Timer { return time.AfterFunc(1000*time.Hour, func() {}) }

func FireTimer(t *time.Timer, f func()) bool {
	if t == nil || t.Stop() {
		f()
		return true
	}
	return false
}

// Long is set by -long: probes that need tens of seconds of real time run too (C18's own check only).
var Long bool
